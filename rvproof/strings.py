"""Strings whose code points may be symbolic (concrete number of code points).

Model of str.encode("utf8") / bytes.decode("utf8") per RFC 3629 / CPython:
  U+0000..U+007F      0xxxxxxx
  U+0080..U+07FF      110xxxxx 10xxxxxx
  U+0800..U+FFFF      1110xxxx 10xxxxxx 10xxxxxx        (surrogates U+D800..U+DFFF cannot be encoded)
  U+10000..U+10FFFF   11110xxx 10xxxxxx 10xxxxxx 10xxxxxx
Decoding rejects overlong forms, surrogates and values above U+10FFFF exactly as CPython does
(lead bytes C0, C1, F5..FF invalid; E0 needs A0..BF, ED needs 80..9F, F0 needs 90..BF, F4 needs
80..8F as second byte).  errors="strict" raises UnicodeDecodeError, errors="ignore" drops the
offending bytes.  The length class of every symbolic code point / lead byte is decided by a case
split through the path context, so that all positions stay concrete.
"""
from __future__ import annotations

from .sym import SymBase, SymBool, SymInt, Unsupported, ctx, is_sym, sym_and


def _decide(cond):
    """Concrete truth of a possibly symbolic condition (forks the path when both are feasible)."""
    if isinstance(cond, bool):
        return cond
    return bool(cond)


class SymStr(SymBase):
    __slots__ = ("cps",)

    def __init__(self, cps):
        self.cps = list(cps)

    def __repr__(self):
        return f"<symstr len={len(self.cps)}>"

    __str__ = __repr__

    def __len__(self):
        return len(self.cps)

    def __bool__(self):
        return len(self.cps) > 0

    def __hash__(self):
        raise Unsupported("hash of a symbolic string")

    def __iter__(self):
        for cp in self.cps:
            yield mkstr([cp])

    def __getitem__(self, i):
        if isinstance(i, slice):
            return mkstr(self.cps[i])
        return mkstr([self.cps[i]])

    def __add__(self, o):
        return mkstr(self.cps + cps_of(o))

    def __radd__(self, o):
        return mkstr(cps_of(o) + self.cps)

    def __eq__(self, o):
        if not isinstance(o, (str, SymStr)):
            return False
        a, b = self.cps, cps_of(o)
        if len(a) != len(b):
            return False
        return sym_and(*[x == y for x, y in zip(a, b)])

    def __ne__(self, o):
        from .sym import sym_not

        return sym_not(self.__eq__(o))

    def encode(self, encoding="utf-8", errors="strict"):
        if encoding.lower().replace("-", "") not in ("utf8",):
            raise Unsupported(f"encoding {encoding}")
        from .models import mkbytes

        out = []
        for cp in self.cps:
            out.extend(encode_cp(cp))
        return mkbytes(out)


def cps_of(s):
    if isinstance(s, SymStr):
        return s.cps
    if isinstance(s, str):
        return [ord(c) for c in s]
    raise TypeError(f"can only concatenate str (not {type(s).__name__}) to str")


def mkstr(cps):
    cps = list(cps)
    if all(isinstance(c, int) for c in cps):
        return "".join(chr(c) for c in cps)
    return SymStr(cps)


def encode_cp(cp):
    if isinstance(cp, int):
        return list(chr(cp).encode("utf8"))
    if _decide(cp < 0x80):
        return [cp]
    if _decide(cp < 0x800):
        return [0xC0 + (cp >> 6), 0x80 + (cp & 0x3F)]
    if _decide(cp < 0x10000):
        if _decide(sym_and(cp >= 0xD800, cp <= 0xDFFF)):
            raise UnicodeEncodeError("utf-8", "?", 0, 1, "surrogates not allowed")
        return [0xE0 + (cp >> 12), 0x80 + ((cp >> 6) & 0x3F), 0x80 + (cp & 0x3F)]
    return [0xF0 + (cp >> 18), 0x80 + ((cp >> 12) & 0x3F), 0x80 + ((cp >> 6) & 0x3F), 0x80 + (cp & 0x3F)]


def decode(sb, encoding="utf-8", errors="strict"):
    if encoding.lower().replace("-", "") not in ("utf8",):
        raise Unsupported(f"encoding {encoding}")
    if errors not in ("strict", "ignore"):
        raise Unsupported(f"errors={errors}")
    items = list(sb.items)
    n = len(items)
    cps = []
    i = 0

    def bad(start, end, why):
        if errors == "strict":
            raise UnicodeDecodeError("utf-8", b"?" * n, start, end, why)

    def cont(b, lo=0x80, hi=0xBF):
        return _decide(sym_and(b >= lo, b <= hi))

    while i < n:
        b = items[i]
        if _decide(b < 0x80):
            cps.append(b)
            i += 1
            continue
        if _decide(b < 0xC2) or _decide(b > 0xF4):
            bad(i, i + 1, "invalid start byte")
            i += 1
            continue
        if _decide(b < 0xE0):
            need, lo2, hi2, base = 1, 0x80, 0xBF, b - 0xC0
        elif _decide(b < 0xF0):
            need = 2
            lo2 = 0xA0 if _decide(b == 0xE0) else 0x80
            hi2 = 0x9F if _decide(b == 0xED) else 0xBF
            base = b - 0xE0
        else:
            need = 3
            lo2 = 0x90 if _decide(b == 0xF0) else 0x80
            hi2 = 0x8F if _decide(b == 0xF4) else 0xBF
            base = b - 0xF0
        # CPython consumes the maximal valid prefix of the sequence
        got = 0
        cp = base
        ok = True
        for k in range(1, need + 1):
            if i + k >= n:
                ok = False
                break
            c = items[i + k]
            if not (cont(c, lo2, hi2) if k == 1 else cont(c)):
                ok = False
                break
            cp = cp * 64 + (c - 0x80)
            got = k
        if ok:
            cps.append(cp)
            i += need + 1
        else:
            # the error covers the lead byte and the valid continuation bytes consumed so far;
            # errors="ignore" drops exactly those and decoding resumes at the offending byte
            bad(i, i + got + 1, "invalid continuation byte" if i + got + 1 < n else "unexpected end of data")
            i += got + 1
    return mkstr(cps)
