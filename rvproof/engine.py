"""Path exploration, the harness API used by contracts, obligations and native replay."""
from __future__ import annotations

import random
import time
import traceback

import z3

from . import sym
from . import floats  # noqa: F401  (registers the float model)
from .interp import Interp, SOURCES_SEEN
from .models import SymBytes, mkbytes
from .sym import (
    EngineError,
    PathCtx,
    PathInfeasible,
    Stats,
    SymBool,
    SymInt,
    Unsupported,
    as_bool_z,
    is_sym,
    sym_and,
    sym_eq,
    sym_not,
    sym_or,
)


class CheckFailed(Exception):
    """Raised in replay mode is *not* used; checks are recorded instead."""


class Harness:
    """What a contract body sees.  One instance per executed path / replay."""

    def __init__(self, mode, pctx=None, interp=None, leaf_values=None, choices=None, rng=None):
        self.mode = mode  # 'symbolic' | 'replay' | 'concrete'
        self.pctx = pctx
        self.I = interp
        self.leaf_values = dict(leaf_values or {})
        self.choices = dict(choices or {})
        self.rng = rng
        self.results = []  # (check name, status, info)
        self.covers = {}
        self.named_choices = {}
        self.leaf_log = {}
        self.ghost = {}
        self.tier = "quick"
        self.deadline = None
        self.fallback = True
        self.agg = {}  # native modes: name -> [n_ok, n_fail, first failing witness]
        self.keep_all = True

    # ------------------------------------------------------------------ inputs
    @property
    def symbolic(self):
        return self.mode == "symbolic"

    def int(self, name, lo=None, hi=None):
        if self.mode == "symbolic":
            return self.pctx.int_leaf(name, lo, hi)
        if name in self.leaf_values:
            v = self.leaf_values[name]
        else:
            v = self._rand_int(lo, hi)
        self.leaf_log[name] = v
        return v

    def _rand_int(self, lo, hi):
        rng = self.rng or random
        lo_ = -(2**40) if lo is None else lo
        hi_ = 2**40 if hi is None else hi
        pick = rng.random()
        if pick < 0.15:
            return lo_
        if pick < 0.3:
            return hi_
        if pick < 0.4:
            return min(hi_, lo_ + 1)
        if pick < 0.5:
            return max(lo_, hi_ - 1)
        return rng.randint(lo_, hi_)

    def bool(self, name):
        if self.mode == "symbolic":
            return self.pctx.bool_leaf(name)
        if name in self.leaf_values:
            v = bool(self.leaf_values[name])
        else:
            v = (self.rng or random).random() < 0.5
        self.leaf_log[name] = v
        return v

    def bytes(self, name, n, lo=0, hi=255):
        items = [self.int(f"{name}[{i}]", lo, hi) for i in range(n)]
        return mkbytes(items)

    def f32(self, name):
        """A finite binary32 value: symbolic = an opaque bit pattern (4 byte leaves, exponent != 255); native = the
        Python float with that pattern (an infinite / NaN pattern drawn at random is mapped to a finite one)."""
        bs = [self.int(f"{name}.b{i}", 0, 255) for i in range(4)]
        if self.mode == "symbolic":
            from .floats import SymF32

            self.pctx.assume(sym_or((bs[3] % 128) != 127, bs[2] < 128))
            return SymF32(bs)
        import struct as _st

        if bs[3] % 128 == 127 and bs[2] >= 128:
            bs[3] -= 64
        return _st.unpack("<f", bytes(bs))[0]

    def choice(self, name, seq):
        """Complete case split over concrete alternatives."""
        seq = list(seq)
        if self.mode == "symbolic":
            k = self.pctx.choice(len(seq), name)
        elif name in self.choices:
            k = self.choices[name]
        else:
            k = (self.rng or random).randrange(len(seq))
        self.named_choices[name] = k
        return seq[k]

    def enum(self, name, cls):
        members = []
        seen = set()
        for m in cls:
            if m.value not in seen:
                seen.add(m.value)
                members.append(m)
        return self.choice(name, members)

    # ------------------------------------------------------------------ logic
    def assume(self, cond):
        if self.mode == "symbolic":
            self.pctx.assume(cond)
        else:
            if not cond:
                raise PathInfeasible()

    def eq(self, a, b):
        return sym_eq(a, b)

    def and_(self, *xs):
        return sym_and(*xs)

    def or_(self, *xs):
        return sym_or(*xs)

    def not_(self, x):
        return sym_not(x)

    def implies(self, a, b):
        return sym_or(sym_not(a), b)

    def ite(self, c, a, b):
        return sym.sym_ite(c, a, b)

    # ------------------------------------------------------------------ running real code
    def call(self, fn, *args, **kwargs):
        if self.mode == "replay":
            return fn(*args, **kwargs)
        return self.I.call_any(fn, args, kwargs)

    def getattr(self, obj, name):
        if self.mode == "replay":
            return getattr(obj, name)
        return self.I.getattr(obj, name)

    def setattr(self, obj, name, val):
        if self.mode == "replay":
            setattr(obj, name, val)
        else:
            self.I.setattr(obj, name, val)

    def drain(self, gen):
        """list(generator) for interpreted/native generators."""
        return list(gen)

    def raises(self, fn, *args, **kwargs):
        """-> (exception or None, result)"""
        try:
            if getattr(fn, "__self__", None) is self:
                return None, fn(*args, **kwargs)
            return None, self.call(fn, *args, **kwargs)
        except (EngineError, KeyboardInterrupt):
            raise
        except BaseException as e:  # noqa
            return e, None

    # ------------------------------------------------------------------ obligations
    def check(self, name, cond, **info):
        if self.mode != "symbolic":
            ok = bool(cond)
            a = self.agg.setdefault(name, [0, 0, None])
            if ok:
                a[0] += 1
            else:
                a[1] += 1
                if a[2] is None:
                    a[2] = info.get("witness")
            if self.keep_all:
                self.results.append((name, "discharged" if ok else "violated", {"backend": "native"}))
            return ok
        t0 = time.time()
        if isinstance(cond, bool) or not is_sym(cond):
            ok = bool(cond)
            if ok:
                self.results.append((name, "discharged", {"backend": "eval", "t": 0.0}))
            else:
                fr = self.pctx.confirm_feasible()
                if fr == z3.unsat:
                    raise PathInfeasible()
                if fr != z3.sat:
                    self.results.append((name, "undecided", {"backend": "z3", "t": time.time() - t0,
                                                             "why": "clause false on a path whose feasibility the solver could not decide"}))
                    return ok
                r, m = self.pctx._check()
                self.results.append(
                    (name, "violated", {"backend": "eval", "model": self._model_dict(m), "t": time.time() - t0})
                )
            return ok
        z = as_bool_z(cond)
        if self.deadline is not None and time.time() > self.deadline:
            self.results.append((name, "undecided", {"backend": "none", "t": 0.0, "why": "case deadline reached before this obligation"}))
            return False
        st, m = self.pctx.prove(z)
        dt = time.time() - t0
        if st == "valid":
            self.results.append((name, "discharged", {"backend": "z3", "t": dt}))
            return True
        if st == "refuted":
            fr = self.pctx.confirm_feasible()
            if fr == z3.unsat:
                raise PathInfeasible()
            if fr != z3.sat:
                self.results.append((name, "undecided", {"backend": "z3", "t": dt,
                                                         "why": "refuted on a path whose feasibility the solver could not decide"}))
                return False
            self.results.append((name, "violated", {"backend": "z3", "model": self._model_dict(m), "t": dt}))
            return False
        # unknown: hand the query to the fall-back solvers
        if not self.fallback:
            self.results.append((name, "undecided", {"backend": "z3", "t": dt, "why": "solver unknown"}))
            return False
        from .backends import fallback_prove

        budget = 60 if self.deadline is None else max(5, min(60, int(self.deadline - time.time())))
        if self.tier == "quick":
            budget = min(budget, 20)
        st2, backend, model = fallback_prove(self.pctx, z, budget)
        dt = time.time() - t0
        if st2 == "valid":
            self.results.append((name, "discharged", {"backend": backend, "t": dt}))
            return True
        if st2 == "refuted":
            self.results.append((name, "violated", {"backend": backend, "model": model, "t": dt}))
            return False
        self.results.append((name, "undecided", {"backend": "z3+" + backend, "t": dt, "why": "solver unknown"}))
        return False

    def lemma(self, name, cond):
        """Prove `cond` under the path condition and, if discharged, add it to the path condition
        (a cut: sound because only proved facts are added; it only helps later obligations)."""
        ok = self.check(name, cond)
        if ok and self.mode == "symbolic" and is_sym(cond):
            self.pctx.add(as_bool_z(cond))
        return ok

    def hint(self, name, cond, timeout_ms=5000):
        """Optional lemma: if `cond` can be proved it is recorded as a discharged obligation and added
        to the path condition; if not, nothing happens (a hint never fails a check)."""
        if self.mode != "symbolic" or not is_sym(cond):
            return bool(cond) if not is_sym(cond) else False
        if self.deadline is not None and time.time() > self.deadline:
            return False
        t0 = time.time()
        z = as_bool_z(cond)
        st, _m = self.pctx.prove(z, timeout_ms=timeout_ms)
        if st == "valid":
            self.results.append((name, "discharged", {"backend": "z3", "t": time.time() - t0}))
            self.pctx.add(z)
            return True
        return False

    def watch(self, qualname_suffix, callback):
        """Ghost observation of the locals of an interpreted function (symbolic modes only)."""
        if self.I is not None:
            self.I.watch[qualname_suffix] = callback

    def loop_invariant(self, qualname_suffix, callback):
        """Ghost hook at the head of every iteration of every `for` loop of an interpreted function:
        callback(locals, lineno) states the loop invariant (as lemmas)."""
        if self.I is not None:
            self.I.loop_heads[qualname_suffix] = callback

    def cover(self, name):
        """Reachability witness: this program point was reached on a feasible path."""
        self.covers[name] = self.covers.get(name, 0) + 1

    def _model_dict(self, m):
        out = {}
        if m is None:
            return out
        for name in self.pctx.leaf_order:
            v = m.eval(self.pctx.leaves[name], model_completion=True)
            if z3.is_int_value(v):
                out[name] = v.as_long()
            elif z3.is_true(v):
                out[name] = True
            elif z3.is_false(v):
                out[name] = False
            else:
                out[name] = str(v)
        return out


# ------------------------------------------------------------------------------- exploration


class PathRecord:
    def __init__(self):
        self.results = []
        self.covers = {}
        self.named_choices = {}
        self.status = "ok"  # ok | infeasible | unsupported | exception
        self.detail = None
        self.exc_model = None


_CLASS_STATE = None


def _class_level_containers():
    """(class, attribute, live container, shallow copy) for every mutable container held by a class of
    the rv package.  Taken once, before the first path."""
    import sys

    out = []
    seen = set()
    for name, mod in list(sys.modules.items()):
        if mod is None or not (name == "rv" or name.startswith("rv.")):
            continue
        for obj in list(vars(mod).values()):
            if not isinstance(obj, type) or not str(getattr(obj, "__module__", "")).startswith("rv") or id(obj) in seen:
                continue
            seen.add(id(obj))
            for attr, val in list(vars(obj).items()):
                if attr.startswith("__"):
                    continue
                if isinstance(val, list):
                    out.append((obj, attr, val, list(val)))
                elif isinstance(val, dict):
                    out.append((obj, attr, val, dict(val)))
                elif isinstance(val, set):
                    out.append((obj, attr, val, set(val)))
                elif (not isinstance(val, type) and hasattr(val, "__dict__") and str(getattr(type(val), "__module__", "")).startswith("rv")
                      and not callable(val)):
                    # an rv object kept as a class attribute (a shared sentinel, a descriptor with state):
                    # its attribute dictionary is restored as well
                    out.append((obj, attr, val, ("obj", dict(vars(val)))))
    return out


def _reset_globals():
    """Every path (and every native replay) starts from the process state a fresh interpreter would
    have: strict mode on, class-level containers as they were at import.  Without this a path that
    mutates a class-level default (which is exactly what some defects do) would leak symbolic values
    into the paths explored after it.  Identity-based comparison: elements may be symbolic."""
    global _CLASS_STATE
    import rv.errors

    rv.errors.RAISE_CONTROLLER_VALUE_ERRORS = True
    if _CLASS_STATE is None:
        _CLASS_STATE = _class_level_containers()
        return
    for cls, attr, live, saved in _CLASS_STATE:
        if isinstance(saved, tuple) and len(saved) == 2 and saved[0] == "obj":
            d, want = vars(live), saved[1]
            if len(d) != len(want) or any(k not in d or d[k] is not v for k, v in want.items()):
                d.clear()
                d.update(want)
            continue
        if isinstance(live, list):
            if len(live) != len(saved) or any(a is not b for a, b in zip(live, saved)):
                live[:] = saved
        elif isinstance(live, dict):
            if len(live) != len(saved) or any(k not in live or live[k] is not v for k, v in saved.items()):
                live.clear()
                live.update(saved)
        else:
            if len(live) != len(saved) or any(x not in live for x in saved):
                live.clear()
                live.update(saved)
        if vars(cls).get(attr) is not live:
            try:
                setattr(cls, attr, live)
            except (AttributeError, TypeError):
                pass


def explore(body, case, timeout_ms=10000, max_paths=20000, deadline=None, tier="quick", fallback=True):
    """Run `body(H, case)` on every feasible path.  -> (list[PathRecord], Stats, Interp)"""
    stats = Stats()
    interp = Interp()
    work = [[]]
    records = []
    npaths = 0
    while work:
        prefix = work.pop()
        npaths += 1
        if npaths > max_paths or (deadline and time.time() > deadline):
            rec = PathRecord()
            rec.status = "unsupported"
            rec.detail = f"path budget exhausted ({npaths - 1} paths explored, {len(work) + 1} pending)"
            records.append(rec)
            break
        pctx = PathCtx(prefix, timeout_ms, stats)
        sym.set_ctx(pctx)
        _reset_globals()
        H = Harness("symbolic", pctx, interp)
        H.tier = tier
        H.deadline = deadline
        H.fallback = fallback
        rec = PathRecord()
        try:
            body(H, case)
        except PathInfeasible:
            rec.status = "infeasible"
        except Unsupported as e:
            rec.status = "unsupported"
            rec.detail = str(e)
        except EngineError as e:
            rec.status = "unsupported"
            rec.detail = f"{type(e).__name__}: {e}"
        except RecursionError as e:
            rec.status = "unsupported"
            rec.detail = "RecursionError in the interpreter"
        except BaseException as e:  # an exception escaped the contract body on a feasible path
            rec.status = "exception"
            tb = traceback.format_exc(limit=-6)
            rec.detail = f"{type(e).__name__}: {e}"
            rec.tb = tb
            try:
                fr = pctx.confirm_feasible()
                if fr == z3.unsat:
                    rec.status = "infeasible"
                elif fr != z3.sat:
                    rec.status = "unsupported"
                    rec.detail = f"exception {rec.detail} on a path whose feasibility the solver could not decide"
                else:
                    r, m = pctx._check()
                    rec.exc_model = H._model_dict(m) if r == z3.sat else None
            except Exception:
                rec.exc_model = None
        finally:
            sym.set_ctx(None)
            _reset_globals()
        rec.results = H.results
        rec.covers = H.covers
        rec.named_choices = H.named_choices
        rec.decisions = list(pctx.decisions)
        records.append(rec)
        work.extend(pctx.alternatives)
    return records, stats, interp


def replay_native(body, case, leaf_values, choices, tier="quick"):
    """Run the same contract body natively on concrete inputs.  -> Harness (results) or exception"""
    _reset_globals()
    H = Harness("replay", leaf_values=leaf_values, choices=choices)
    H.tier = tier
    exc = None
    try:
        body(H, case)
    except PathInfeasible:
        exc = "infeasible"
    except BaseException as e:  # noqa
        exc = e
    finally:
        _reset_globals()
    return H, exc


def run_concrete_interp(body, case, leaf_values, choices, tier="quick"):
    """Run the body through the interpreter on concrete inputs (engine self-check)."""
    pctx = PathCtx([], 5000)
    sym.set_ctx(pctx)
    _reset_globals()
    H = Harness("concrete", pctx=pctx, interp=Interp(), leaf_values=leaf_values, choices=choices)
    H.tier = tier
    exc = None
    try:
        body(H, case)
    except PathInfeasible:
        exc = "infeasible"
    except EngineError as e:
        exc = e
    except BaseException as e:  # noqa
        exc = e
    finally:
        sym.set_ctx(None)
        _reset_globals()
    return H, exc
