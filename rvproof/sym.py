"""Symbolic values and the per-path solver context.

Python ints are mathematical integers, so z3 `Int` is exact for them.  Every value
constructor simplifies its term and returns a plain Python int/bool when the term is a
numeral, so concrete computation stays concrete.
"""
from __future__ import annotations

import time

import z3

# --------------------------------------------------------------------------- errors


class EngineError(BaseException):
    """Engine-internal control flow; never catchable by interpreted `except Exception`."""


class Unsupported(EngineError):
    """The code left the subset the engine can interpret: no verdict."""


class PathInfeasible(EngineError):
    """An `assume` made the path condition unsatisfiable."""


class SolverUnknown(EngineError):
    """A feasibility query came back unknown and could not be resolved."""


# --------------------------------------------------------------------------- context

_CTX: "PathCtx | None" = None


def ctx() -> "PathCtx":
    if _CTX is None:
        raise Unsupported("symbolic operation outside of a path context")
    return _CTX


def set_ctx(c):
    global _CTX
    _CTX = c


class Stats:
    def __init__(self):
        self.solver_time = 0.0
        self.queries = 0
        self.by_backend = {}

    def add(self, backend, dt):
        self.solver_time += dt
        self.queries += 1
        self.by_backend[backend] = self.by_backend.get(backend, 0) + 1


_VARS_CACHE = {}


def vars_of(e):
    """Names of the uninterpreted constants of a term (memoized on the AST id)."""
    k = e.get_id()
    got = _VARS_CACHE.get(k)
    if got is not None:
        return got[1]
    out = set()
    if z3.is_app(e):
        if e.num_args() == 0:
            if e.decl().kind() == z3.Z3_OP_UNINTERPRETED:
                out.add(e.decl().name())
        else:
            for i in range(e.num_args()):
                out |= vars_of(e.arg(i))
    elif z3.is_quantifier(e):
        out |= vars_of(e.body())
    res = frozenset(out)
    if len(_VARS_CACHE) > 400000:
        _VARS_CACHE.clear()
    _VARS_CACHE[k] = (e, res)  # keep e alive so the id is not reused
    return res


class CompositeModel:
    """A model of the whole path condition assembled from per-component models."""

    def __init__(self, pctx, base_model, base_vars):
        self.pctx = pctx
        self.base = base_model
        self.base_vars = base_vars
        self.comp_models = {}

    def _model_for(self, name):
        if self.base is not None and name in self.base_vars:
            return self.base
        if name not in self.pctx.parent:
            return None
        root = self.pctx.find(name)
        if root not in self.comp_models:
            r, m = self.pctx._solve(self.pctx.comp_cons.get(root, []), [])
            self.comp_models[root] = m if r == z3.sat else None
        return self.comp_models[root]

    def eval(self, e, model_completion=True):
        vs = vars_of(e)
        if not vs:
            return z3.simplify(e)
        m = self._model_for(next(iter(vs)))
        if m is None:
            s0 = z3.Solver()
            s0.check()
            m = s0.model()
        return m.eval(e, model_completion)


class Prefix(list):
    """A decision prefix that remembers which of its decisions were taken with undecided feasibility."""

    def __init__(self, items=(), uncertain=()):
        super().__init__(items)
        self.uncertain = frozenset(uncertain)


def _related(cons, z):
    """The constraints of `cons` that share variables, transitively, with z."""
    names = set(vars_of(z))
    pending = [(c, vars_of(c)) for c in cons]
    out = []
    changed = True
    while changed:
        changed = False
        rest = []
        for c, vs in pending:
            if vs & names:
                names |= vs
                out.append(c)
                changed = True
            else:
                rest.append((c, vs))
        pending = rest
    return out


CONFIRM_MS = (5000, 20000)
def guarded_check(s, wall_ms):
    """s.check() with a watchdog: z3's own `timeout` / `rlimit` are not honoured inside some non-linear real
    arithmetic procedures (seen: a single check() that ran for more than 20 minutes on a changed tree), so a
    timer thread interrupts the context after the wall-clock limit plus a grace period -> `unknown`."""
    import threading

    t = threading.Timer(wall_ms / 1000.0 + 2.0, s.ctx.interrupt)
    t.daemon = True
    t.start()
    try:
        return s.check()
    except z3.Z3Exception:
        return z3.unknown
    finally:
        t.cancel()


RLIMIT_PER_MS = 1800  # measured: a 3.0 s `unknown` of the generic solver consumes ~5.5 M units
WALL_FACTOR = 3


class PathCtx:
    """One execution path: a decision prefix that is replayed, then extended.

    Solver queries use constraint-independence slicing: only the path-condition constraints
    that share variables (transitively) with the query are sent to the solver.  The path
    condition is satisfiable by construction (only feasible branches are taken), so the
    sliced query is equisatisfiable with the full one.  Queries containing integer div/mod
    are first tried through the exact 64-bit bit-vector translation (rvproof.bvsolve)."""

    def __init__(self, prefix=(), timeout_ms=10000, stats=None):
        # Budgets are stated in "nominal milliseconds" and enforced through z3's deterministic
        # resource counter (rlimit, ~RLIMIT_PER_MS units per millisecond on an idle core) so that
        # a verdict does not depend on machine load; the wall-clock timeout (WALL_FACTOR x nominal)
        # is only a safety net.
        self.timeout_ms = timeout_ms
        self.feas_timeout_ms = 1200
        self.maybe_infeasible = False  # some feasibility query came back unknown on this path
        self.prefix = list(prefix)
        # decisions whose feasibility the (short-budget) solver could not decide: indices into the
        # decision list (inherited through the prefix) and, for this run, (len(pc) before, condition)
        self.prefix_uncertain = set(getattr(prefix, "uncertain", ()))
        self.uncertain_idx = set()
        self.uncertain = []
        self.decisions = []  # choices actually taken on this path
        self.alternatives = []  # prefixes that still have to be explored
        self.pc = []
        self.counter = 0
        self.leaves = {}  # name -> z3 const (inputs made by the harness)
        self.leaf_order = []
        self.stats = stats or Stats()
        self.packcache = {}
        self.nbranches = 0
        self.notes = []
        from .bvsolve import BVTranslator

        self.bvtr = BVTranslator()
        # union-find over variable names; constraints per component
        self.parent = {}
        self.comp_cons = {}

    # -- naming
    def fresh_name(self, base):
        self.counter += 1
        return f"{base}!{self.counter}"

    def int_leaf(self, name, lo=None, hi=None):
        if name in self.leaves:
            raise Unsupported(f"duplicate leaf name {name}")
        v = z3.Int(name)
        self.leaves[name] = v
        self.leaf_order.append(name)
        self.bvtr.set_bounds(name, lo, hi)
        if lo is not None:
            self.add(v >= lo)
        if hi is not None:
            self.add(v <= hi)
        return SymInt(v)

    def bool_leaf(self, name):
        if name in self.leaves:
            raise Unsupported(f"duplicate leaf name {name}")
        v = z3.Bool(name)
        self.leaves[name] = v
        self.leaf_order.append(name)
        return SymBool(v)

    # -- union-find
    def find(self, x):
        p = self.parent
        if x not in p:
            p[x] = x
            return x
        r = x
        while p[r] != r:
            r = p[r]
        while p[x] != r:
            p[x], x = r, p[x]
        return r

    def _union_all(self, vs):
        it = iter(vs)
        try:
            r = self.find(next(it))
        except StopIteration:
            return None
        for v in it:
            r2 = self.find(v)
            if r2 != r:
                # merge smaller constraint list into larger
                a = self.comp_cons.get(r, [])
                b = self.comp_cons.pop(r2, [])
                if len(b) > len(a):
                    a, b = b, a
                a.extend(b)
                self.parent[r2] = r
                self.comp_cons[r] = a
        return r

    # -- solver plumbing
    def add(self, z):
        self.pc.append(z)
        vs = vars_of(z)
        r = self._union_all(vs)
        if r is None:
            zs = z3.simplify(z)
            if z3.is_false(zs):
                raise PathInfeasible()
            return
        self.comp_cons.setdefault(r, []).append(z)

    def _slice(self, terms):
        roots = set()
        names = set()
        for t in terms:
            for v in vars_of(t):
                names.add(v)
                if v in self.parent:
                    roots.add(self.find(v))
        cons = []
        for r in roots:
            cons.extend(self.comp_cons.get(r, []))
        return cons, names, roots

    def _solve(self, cons, extra):
        from .bvsolve import BVModel, NotApplicable, has_divmod

        allc = list(cons) + list(extra)
        if any(has_divmod(c) for c in allc):
            try:
                ts = [self.bvtr.tr_bool(c) for c in allc]
                t0 = time.time()
                s = z3.SolverFor("QF_BV")
                s.set("timeout", self.timeout_ms * WALL_FACTOR)
                for sd in self.bvtr.side:
                    s.add(sd)
                for t in ts:
                    s.add(t)
                r = guarded_check(s, self.timeout_ms * WALL_FACTOR)
                self.stats.add("z3-bv", time.time() - t0)
                if r != z3.unknown:
                    return r, (BVModel(self.bvtr, s.model()) if r == z3.sat else None)
            except NotApplicable:
                pass
        t0 = time.time()
        s = z3.Solver()
        s.set("timeout", self.timeout_ms * WALL_FACTOR)
        s.set("rlimit", self.timeout_ms * RLIMIT_PER_MS)
        for c in allc:
            s.add(c)
        r = guarded_check(s, self.timeout_ms * WALL_FACTOR)
        m = s.model() if r == z3.sat else None
        self.stats.add("z3", time.time() - t0)
        return r, m

    def _check(self, *extra, focus=(), full_model=False):
        """Satisfiability of (path condition AND extra).  Without extra/focus the whole path
        condition is meant (used only for model extraction)."""
        terms = list(extra) + list(focus)
        if not terms:
            return z3.sat, CompositeModel(self, None, set())
        cons, names, roots = self._slice(terms)
        r, m = self._solve(cons, extra)
        if r == z3.sat:
            covered = set(names)
            for c in cons:
                covered |= vars_of(c)
            m = CompositeModel(self, m, covered)
        return r, m

    def assume(self, cond):
        if isinstance(cond, bool):
            if not cond:
                raise PathInfeasible()
            return
        z = as_bool_z(cond)
        self.add(z)
        r, _ = self._check(focus=[z])
        if r == z3.unsat:
            raise PathInfeasible()

    def feasible(self, z):
        # feasibility only steers the exploration (unknown is treated as feasible), so it gets a
        # short budget; quantified path conditions rarely let the solver prove `sat`
        old = self.timeout_ms
        self.timeout_ms = min(old, self.feas_timeout_ms)
        try:
            r, _ = self._check(z)
        finally:
            self.timeout_ms = old
        return r  # sat / unsat / unknown

    def branch(self, z) -> bool:
        """Decide a symbolic truth value; forks the exploration when both sides are feasible."""
        self.nbranches += 1
        if self.nbranches > 200000:
            raise Unsupported("branch budget exceeded on one path")
        i = len(self.decisions)
        if i < len(self.prefix):
            d = self.prefix[i]
            self.decisions.append(d)
            if i in self.prefix_uncertain:
                self._uncertain(i, z if d else z3.Not(z))
            self.add(z if d else z3.Not(z))
            return bool(d)
        rt = self.feasible(z)
        if rt == z3.unsat:
            self.decisions.append(0)
            self.add(z3.Not(z))
            return False
        rf = self.feasible(z3.Not(z))
        if rf == z3.unsat:
            self.decisions.append(1)  # implied by the path condition: adds no uncertainty
            self.add(z)
            return True
        # both feasible (or unknown, which is treated as feasible: sound, maybe wasteful)
        self.alternatives.append(Prefix(self.decisions + [0], self.uncertain_idx | ({i} if rf == z3.unknown else set())))
        self.decisions.append(1)
        if rt == z3.unknown:
            self._uncertain(i, z)
        self.add(z)
        return True

    def _uncertain(self, i, z):
        self.maybe_infeasible = True
        self.uncertain_idx.add(i)
        self.uncertain.append((len(self.pc), z))

    def choice(self, n, label="choice") -> int:
        """Complete n-way case split (concrete alternatives)."""
        if n <= 0:
            raise PathInfeasible()
        i = len(self.decisions)
        if i < len(self.prefix):
            d = self.prefix[i]
            self.decisions.append(d)
            return d
        for k in range(n - 1, 0, -1):
            self.alternatives.append(Prefix(self.decisions + [k], self.uncertain_idx))
        self.decisions.append(0)
        return 0

    def choose_feasible(self, conds, label="case"):
        """Case split over z3 conditions (must be exhaustive by construction of the caller).
        Decisions record the absolute index, so that replaying a prefix does not depend on
        solver timing."""
        i = len(self.decisions)
        if i < len(self.prefix):
            k = self.prefix[i]
            self.decisions.append(k)
            if i in self.prefix_uncertain:
                self._uncertain(i, conds[k])
            self.add(conds[k])
            return k
        rs = [self.feasible(c) for c in conds]
        feas = [k for k, r in enumerate(rs) if r != z3.unsat]
        if not feas:
            raise PathInfeasible()
        for k in feas[:0:-1]:
            self.alternatives.append(Prefix(self.decisions + [k], self.uncertain_idx | ({i} if rs[k] == z3.unknown else set())))
        k = feas[0]
        self.decisions.append(k)
        if rs[k] == z3.unknown:
            self._uncertain(i, conds[k])
        self.add(conds[k])
        return k

    def unique_value(self, z, small=128):
        """Concrete integer for z: the single value the path condition allows, or - when at most
        `small` values are possible - a complete case split over them."""
        r, m = self._check(focus=[z])
        if r != z3.sat:
            raise Unsupported("cannot concretize: path condition not sat")
        i = len(self.decisions)
        if i < len(self.prefix) and isinstance(self.prefix[i], tuple) and self.prefix[i][0] == "val":
            v = self.prefix[i][1]
            self.decisions.append(self.prefix[i])
            self.add(z == v)
            return v
        v = m.eval(z, model_completion=True)
        r2, m2 = self._check(z != v)
        if r2 == z3.unsat:
            return v.as_long()
        vals = [v.as_long()]
        excl = [z != v]
        while r2 == z3.sat and len(vals) <= small:
            v2 = m2.eval(z, model_completion=True)
            vals.append(v2.as_long())
            excl.append(z != v2)
            r2, m2 = self._check(*excl)
        if r2 != z3.unsat:
            raise Unsupported(f"symbolic value where a concrete integer is required: {z}")
        vals.sort()
        for v2 in vals[:0:-1]:
            self.alternatives.append(Prefix(self.decisions + [("val", v2)], self.uncertain_idx))
        self.decisions.append(("val", vals[0]))
        self.add(z == vals[0])
        return vals[0]

    def confirm_feasible(self):
        """For a path on which a feasibility query was inconclusive: is the whole path condition
        satisfiable?  -> sat / unsat / unknown (long timeout, no slicing)."""
        if not self.maybe_infeasible:
            return z3.sat
        if self.uncertain:
            # the path condition is satisfiable iff every decision was satisfiable when it was taken
            # (everything else added to it is definitional); re-examine the undecided ones with a
            # long budget, each against the part of the path condition that existed at that point
            # latest first (a spurious branch usually ends the path soon), with an escalating budget
            old = self.timeout_ms
            verdicts = {}
            try:
                for budget in CONFIRM_MS:
                    self.timeout_ms = budget
                    for k in range(len(self.uncertain) - 1, -1, -1):
                        if verdicts.get(k) == z3.sat:
                            continue
                        n, z = self.uncertain[k]
                        r, _m = self._solve(_related(self.pc[:n], z), [z])
                        if r == z3.unsat:
                            return z3.unsat
                        verdicts[k] = r
                    if all(v == z3.sat for v in verdicts.values()):
                        break
            finally:
                self.timeout_ms = old
            verdicts = list(verdicts.values())
            if all(v == z3.sat for v in verdicts):
                self.maybe_infeasible = False
                self.uncertain = []
                return z3.sat
            return z3.unknown
        r, _m = self._solve(list(self.pc), [])
        if r == z3.sat:
            self.maybe_infeasible = False
        return r

    def prove(self, z, timeout_ms=None):
        """Is z valid under the path condition?  -> ('valid'|'refuted'|'unknown', model)"""
        old = self.timeout_ms
        if timeout_ms:
            self.timeout_ms = timeout_ms
        try:
            r, m = self._check(z3.Not(z))
        finally:
            self.timeout_ms = old
        if r == z3.unsat:
            return "valid", None
        if r == z3.sat:
            return "refuted", m
        return "unknown", None

    def smt2(self, negated_goal):
        s = z3.Solver()
        for p in self.pc:
            s.add(p)
        s.add(negated_goal)
        return s.to_smt2()


# --------------------------------------------------------------------------- helpers


def is_sym(x):
    return isinstance(x, SymBase)


def _mkint(z):
    z = z3.simplify(z)
    if z3.is_int_value(z):
        return z.as_long()
    return SymInt(z)


def _mkbool(z):
    z = z3.simplify(z)
    if z3.is_true(z):
        return True
    if z3.is_false(z):
        return False
    return SymBool(z)


def as_int_z(x):
    """z3 Int term for an int-like value, or None."""
    if isinstance(x, SymInt):
        return x.z
    if isinstance(x, SymBool):
        return z3.If(x.z, z3.IntVal(1), z3.IntVal(0))
    if isinstance(x, bool):
        return z3.IntVal(int(x))
    if isinstance(x, int):
        return z3.IntVal(int(x))
    return None


def as_bool_z(x):
    if isinstance(x, SymBool):
        return x.z
    if isinstance(x, bool):
        return z3.BoolVal(x)
    if isinstance(x, SymInt):
        return x.z != 0
    if isinstance(x, int):
        return z3.BoolVal(x != 0)
    raise Unsupported(f"no symbolic truth value for {type(x).__name__}")


def sym_and(*xs):
    zs = []
    for x in xs:
        if x is True:
            continue
        if x is False:
            return False
        zs.append(as_bool_z(x))
    if not zs:
        return True
    return _mkbool(z3.And(*zs))


def sym_or(*xs):
    zs = []
    for x in xs:
        if x is False:
            continue
        if x is True:
            return True
        zs.append(as_bool_z(x))
    if not zs:
        return False
    return _mkbool(z3.Or(*zs))


def sym_not(x):
    if isinstance(x, bool):
        return not x
    return _mkbool(z3.Not(as_bool_z(x)))


def sym_implies(a, b):
    return sym_or(sym_not(a), b)


def sym_ite(c, a, b):
    """Value-level if-then-else for int-like / bool-like operands."""
    if isinstance(c, bool):
        return a if c else b
    cz = as_bool_z(c)
    if isinstance(a, (bool, SymBool)) and isinstance(b, (bool, SymBool)):
        return _mkbool(z3.If(cz, as_bool_z(a), as_bool_z(b)))
    az, bz = as_int_z(a), as_int_z(b)
    if az is None or bz is None:
        raise Unsupported("sym_ite on non-integer operands")
    return _mkint(z3.If(cz, az, bz))


def sym_eq(a, b):
    """Structural equality as a (possibly symbolic) truth value, without forking."""
    from .models import SymBytes  # cyclic

    if is_sym(a) or is_sym(b):
        if isinstance(a, SymBytes) or isinstance(b, SymBytes):
            return SymBytes.eq(a, b)
        r = a == b
        return r
    if isinstance(a, (list, tuple)) and isinstance(b, (list, tuple)):
        if type(a) is not type(b) and not (isinstance(a, type(b)) or isinstance(b, type(a))):
            return False
        if len(a) != len(b):
            return False
        return sym_and(*[sym_eq(x, y) for x, y in zip(a, b)])
    if isinstance(a, dict) and isinstance(b, dict):
        if a.keys() != b.keys():
            return False
        return sym_and(*[sym_eq(a[k], b[k]) for k in a])
    r = a == b
    if isinstance(r, (bool, SymBool)):
        return r
    return bool(r)


def _mask_runs(c):
    """Maximal runs of 1 bits in a non-negative constant: [(lo, width), ...]."""
    runs = []
    i = 0
    while c >> i:
        if (c >> i) & 1:
            lo = i
            while (c >> i) & 1:
                i += 1
            runs.append((lo, i - lo))
        else:
            i += 1
    return runs


def _and_const(xz, c):
    """x & c for a Python-int constant c, exact on mathematical integers."""
    if c == 0:
        return z3.IntVal(0)
    if c == -1:
        return xz
    if c < 0:
        # x & c == x - (x & ~c), ~c >= 0
        return xz - _and_const(xz, ~c)
    terms = []
    for lo, w in _mask_runs(c):
        t = xz / z3.IntVal(1 << lo) if lo else xz  # z3 Int `/` is floor div for positive divisors
        t = t % z3.IntVal(1 << w)
        if lo:
            t = t * z3.IntVal(1 << lo)
        terms.append(t)
    return z3.Sum(terms) if len(terms) > 1 else terms[0]


def _bv_width(az, bz):
    c = ctx()
    for w in (8, 16, 32, 64):
        lim = z3.IntVal(1 << w)
        r, _ = c._check(z3.Not(z3.And(az >= 0, az < lim, bz >= 0, bz < lim)))
        if r == z3.unsat:
            return w
    raise Unsupported("bit operation on symbolic operands that are not provably in [0, 2^64)")


def _bitop(op, a, b):
    az, bz = as_int_z(a), as_int_z(b)
    a_const = z3.is_int_value(z3.simplify(az))
    b_const = z3.is_int_value(z3.simplify(bz))
    if a_const and not b_const:
        az, bz, a_const, b_const = bz, az, b_const, a_const
    if b_const:
        c = z3.simplify(bz).as_long()
        andz = _and_const(az, c)
        if op == "and":
            return _mkint(andz)
        if op == "or":
            return _mkint(az - andz + c)
        return _mkint(az + c - 2 * andz)
    w = _bv_width(az, bz)
    # digit-wise encoding in linear integer arithmetic: exact for operands in [0, 2^w)
    c = ctx()
    abits = _bits(c, az, w)
    bbits = _bits(c, bz, w)
    terms = []
    for i in range(w):
        x, y = abits[i], bbits[i]
        if op == "and":
            bit = z3.If(z3.And(x == 1, y == 1), 1, 0)
        elif op == "or":
            bit = z3.If(z3.Or(x == 1, y == 1), 1, 0)
        else:
            bit = z3.If(x != y, 1, 0)
        terms.append(bit * z3.IntVal(1 << i))
    return _mkint(z3.Sum(terms))


def _bits(c, xz, w):
    key = ("bits", xz.get_id(), w)
    got = c.packcache.get(key)
    if got is not None:
        return got
    bits = [(xz / z3.IntVal(1 << i)) % 2 if i else xz % 2 for i in range(w)]
    c.packcache[key] = bits
    c.packcache[("keep", xz.get_id())] = xz
    return bits


# --------------------------------------------------------------------------- values


class SymBase:
    __slots__ = ()

    def __deepcopy__(self, memo):
        return self

    def __copy__(self):
        return self

    def __format__(self, spec):
        return "<sym>"

    def __reduce__(self):
        raise Unsupported("pickling a symbolic value")


class SymInt(SymBase):
    __slots__ = ("z",)

    def __init__(self, z):
        self.z = z

    def __repr__(self):
        return "<sym>"

    __str__ = __repr__

    # arithmetic
    def __add__(self, o):
        oz = as_int_z(o)
        if oz is None:
            return _float_or_ni(self, o, "add")
        return _mkint(self.z + oz)

    def __radd__(self, o):
        oz = as_int_z(o)
        if oz is None:
            return _float_or_ni(o, self, "add", True)
        return _mkint(oz + self.z)

    def __sub__(self, o):
        oz = as_int_z(o)
        if oz is None:
            return _float_or_ni(self, o, "sub")
        return _mkint(self.z - oz)

    def __rsub__(self, o):
        oz = as_int_z(o)
        if oz is None:
            return _float_or_ni(o, self, "sub", True)
        return _mkint(oz - self.z)

    def __mul__(self, o):
        oz = as_int_z(o)
        if oz is None:
            return _float_or_ni(self, o, "mul")
        return _mkint(self.z * oz)

    def __rmul__(self, o):
        oz = as_int_z(o)
        if oz is None:
            return _float_or_ni(o, self, "mul", True)
        return _mkint(oz * self.z)

    def __neg__(self):
        return _mkint(-self.z)

    def __pos__(self):
        return self

    def __abs__(self):
        return _mkint(z3.If(self.z >= 0, self.z, -self.z))

    def __invert__(self):
        return _mkint(-self.z - 1)

    def __floordiv__(self, o):
        return _floordiv(self, o)

    def __rfloordiv__(self, o):
        return _floordiv(o, self)

    def __mod__(self, o):
        return _mod(self, o)

    def __rmod__(self, o):
        if isinstance(o, (str, bytes)):
            return NotImplemented
        return _mod(o, self)

    def __truediv__(self, o):
        return _float_or_ni(self, o, "div")

    def __rtruediv__(self, o):
        return _float_or_ni(o, self, "div", True)

    def __pow__(self, o):
        if isinstance(o, int) and not isinstance(o, bool) and 0 <= o <= 4:
            r = 1
            for _ in range(o):
                r = r * self
            return r
        raise Unsupported("symbolic power")

    def __rpow__(self, o):
        if isinstance(o, int):
            k = ctx().unique_value(self.z)
            return o**k
        raise Unsupported("symbolic power")

    # bit operations
    def __and__(self, o):
        if as_int_z(o) is None:
            return NotImplemented
        return _bitop("and", self, o)

    __rand__ = __and__

    def __or__(self, o):
        if as_int_z(o) is None:
            return NotImplemented
        return _bitop("or", self, o)

    __ror__ = __or__

    def __xor__(self, o):
        if as_int_z(o) is None:
            return NotImplemented
        return _bitop("xor", self, o)

    __rxor__ = __xor__

    def __lshift__(self, o):
        return _shift(self, o, True)

    def __rlshift__(self, o):
        return _shift(o, self, True)

    def __rshift__(self, o):
        return _shift(self, o, False)

    def __rrshift__(self, o):
        return _shift(o, self, False)

    # comparisons
    def _cmp(self, o, f):
        oz = as_int_z(o)
        if oz is None:
            if isinstance(o, (float, SymFloatBase)):
                return _float_cmp(self, o, f)
            return NotImplemented
        return _mkbool(f(self.z, oz))

    def __lt__(self, o):
        return self._cmp(o, lambda a, b: a < b)

    def __le__(self, o):
        return self._cmp(o, lambda a, b: a <= b)

    def __gt__(self, o):
        return self._cmp(o, lambda a, b: a > b)

    def __ge__(self, o):
        return self._cmp(o, lambda a, b: a >= b)

    def __eq__(self, o):
        oz = as_int_z(o)
        if oz is None:
            if isinstance(o, (float, SymFloatBase)):
                return _float_cmp(self, o, lambda a, b: a == b)
            return False
        return _mkbool(self.z == oz)

    def __ne__(self, o):
        oz = as_int_z(o)
        if oz is None:
            if isinstance(o, (float, SymFloatBase)):
                return _float_cmp(self, o, lambda a, b: a != b)
            return True
        return _mkbool(self.z != oz)

    def __hash__(self):
        return hash(ctx().unique_value(self.z))

    def to_bytes(self, length=1, byteorder="big", *, signed=False):
        from .models import _pack_int, mkbytes

        if byteorder not in ("little", "big"):
            raise ValueError("byteorder must be either 'little' or 'big'")
        try:
            return mkbytes(_pack_int(self, length, signed, byteorder == "little", "to_bytes"))
        except Exception as e:  # struct.error -> OverflowError, as int.to_bytes raises
            if type(e).__name__ == "error":
                raise OverflowError("int too big to convert")
            raise

    def __bool__(self):
        return ctx().branch(self.z != 0)

    def __index__(self):
        return ctx().unique_value(self.z)

    def __int__(self):
        return ctx().unique_value(self.z)


class SymBool(SymBase):
    __slots__ = ("z",)

    def __init__(self, z):
        self.z = z

    def __repr__(self):
        return "<symbool>"

    __str__ = __repr__

    def __bool__(self):
        return ctx().branch(self.z)

    def _i(self):
        return SymInt(z3.If(self.z, z3.IntVal(1), z3.IntVal(0)))

    def __eq__(self, o):
        if isinstance(o, (bool, SymBool)):
            return _mkbool(self.z == as_bool_z(o))
        return self._i() == o

    def __ne__(self, o):
        return sym_not(self == o)

    def __hash__(self):
        raise Unsupported("hash of symbolic bool")

    def __and__(self, o):
        if isinstance(o, (bool, SymBool)):
            return _mkbool(z3.And(self.z, as_bool_z(o)))
        return self._i() & o

    __rand__ = __and__

    def __or__(self, o):
        if isinstance(o, (bool, SymBool)):
            return _mkbool(z3.Or(self.z, as_bool_z(o)))
        return self._i() | o

    __ror__ = __or__

    def __xor__(self, o):
        if isinstance(o, (bool, SymBool)):
            return _mkbool(z3.Xor(self.z, as_bool_z(o)))
        return self._i() ^ o

    __rxor__ = __xor__

    def __invert__(self):
        return ~self._i()

    def __index__(self):
        return ctx().unique_value(self._i().z)

    __int__ = __index__


def _int_delegate(name):
    def f(self, *a):
        return getattr(self._i(), name)(*a)

    f.__name__ = name
    return f


for _n in (
    "__add__ __radd__ __sub__ __rsub__ __mul__ __rmul__ __neg__ __pos__ __abs__ __floordiv__ "
    "__rfloordiv__ __mod__ __rmod__ __truediv__ __rtruediv__ __lshift__ __rlshift__ __rshift__ "
    "__rrshift__ __lt__ __le__ __gt__ __ge__ __pow__"
).split():
    setattr(SymBool, _n, _int_delegate(_n))


def _floordiv(a, b):
    az, bz = as_int_z(a), as_int_z(b)
    if az is None or bz is None:
        return _float_or_ni(a, b, "floordiv")
    bs = z3.simplify(bz)
    if z3.is_int_value(bs):
        c = bs.as_long()
        if c == 0:
            raise ZeroDivisionError("integer division or modulo by zero")
        if c > 0:
            return _mkint(az / bs)
        return _mkint((-az) / z3.IntVal(-c))
    if ctx().branch(bz == 0):
        raise ZeroDivisionError("integer division or modulo by zero")
    q = az / bz
    return _mkint(z3.If(bz > 0, q, z3.If(az % bz == 0, q, q - 1)))


def _mod(a, b):
    az, bz = as_int_z(a), as_int_z(b)
    if az is None or bz is None:
        return _float_or_ni(a, b, "mod")
    q = _floordiv(a, b)
    return _mkint(az - bz * as_int_z(q))


def _shift(a, b, left):
    az, bz = as_int_z(a), as_int_z(b)
    if az is None or bz is None:
        return NotImplemented
    bs = z3.simplify(bz)
    if not z3.is_int_value(bs):
        k = ctx().unique_value(bz)
    else:
        k = bs.as_long()
    if k < 0:
        raise ValueError("negative shift count")
    if left:
        return _mkint(az * z3.IntVal(1 << k))
    return _mkint(az / z3.IntVal(1 << k))


# --------------------------------------------------------------------------- floats (hook points)


class SymFloatBase(SymBase):
    __slots__ = ()


_FLOAT_IMPL = None


def set_float_impl(impl):
    global _FLOAT_IMPL
    _FLOAT_IMPL = impl


def _float_or_ni(a, b, op, reflected=False):
    ok = (int, float, SymInt, SymBool, SymFloatBase)
    if not isinstance(a, ok) or not isinstance(b, ok):
        return NotImplemented
    if _FLOAT_IMPL is None:
        raise Unsupported("float arithmetic on symbolic values (no float model loaded)")
    return _FLOAT_IMPL.binop(op, a, b)


def _float_cmp(a, b, f):
    if _FLOAT_IMPL is None:
        raise Unsupported("float comparison on symbolic values (no float model loaded)")
    return _FLOAT_IMPL.cmp(a, b, f)
