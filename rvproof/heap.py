"""Array-theory model of the four parallel link tables of ALL modules of a project
(the Boogie/Dafny style heap encoding of DESIGN.md section 2.2).

  field[m][k]   : z3 Array(Int -> Array(Int -> Int))     entry k of the table `field` of module m
  length[m]     : z3 Array(Int -> Int)                    current length of that table
  N             : number of module slots

SymList is the list object the interpreted code sees for one module's table: a VIEW into the
heap, so writes through one module's list are visible through any alias (a connected to itself).
Only the operations Project.connect / the readers use are modelled: len, x in L, L.index(x),
L[i], L[i] = v, L.append(v); everything else raises Unsupported.
"""
from __future__ import annotations

import z3

from .sym import SymBase, SymBool, SymInt, Unsupported, _mkbool, _mkint, as_int_z, ctx

FIELDS = ("in_links", "in_link_slots", "out_links", "out_link_slots")
I = z3.IntSort()
TBL = z3.ArraySort(I, z3.ArraySort(I, I))
LEN = z3.ArraySort(I, I)


class LinkHeap:
    def __init__(self, tag="h"):
        self.tab = {f: z3.Const(f"{tag}.{f}", TBL) for f in FIELDS}
        self.len = {f: z3.Const(f"{tag}.len.{f}", LEN) for f in FIELDS}
        self.N = z3.Int(f"{tag}.N")

    def snapshot(self):
        s = LinkHeap.__new__(LinkHeap)
        s.tab = dict(self.tab)
        s.len = dict(self.len)
        s.N = self.N
        return s

    # ---- the invariant, clause by clause (each is a closed z3 formula over this heap state)
    def clauses(self):
        IN, INS, OUT, OUTS = (self.tab[f] for f in FIELDS)
        nIN, nINS, nOUT, nOUTS = (self.len[f] for f in FIELDS)
        d, k, k2 = z3.Ints("d k k2")
        N = self.N
        inr = z3.And(0 <= d, d < N)
        out = {}
        out["lengths_nonnegative"] = z3.ForAll([d], z3.Implies(inr, z3.And(nIN[d] >= 0, nOUT[d] >= 0)))
        out["in_lists_same_length"] = z3.ForAll([d], z3.Implies(inr, nIN[d] == nINS[d]))
        out["out_lists_same_length"] = z3.ForAll([d], z3.Implies(inr, nOUT[d] == nOUTS[d]))
        s, j = IN[d][k], INS[d][k]
        out["in_entries_mirrored"] = z3.ForAll([d, k], z3.Implies(
            z3.And(inr, 0 <= k, k < nIN[d]),
            z3.Or(z3.And(s == -1, j == -1),
                  z3.And(0 <= s, s < N, 0 <= j, j < nOUT[s], OUT[s][j] == d, OUTS[s][j] == k))))
        t, j2 = OUT[d][k], OUTS[d][k]
        out["out_entries_mirrored"] = z3.ForAll([d, k], z3.Implies(
            z3.And(inr, 0 <= k, k < nOUT[d]),
            z3.Or(z3.And(t == -1, j2 == -1),
                  z3.And(0 <= t, t < N, 0 <= j2, j2 < nIN[t], IN[t][j2] == d, INS[t][j2] == k))))
        out["no_duplicate_source"] = z3.ForAll([d, k, k2], z3.Implies(
            z3.And(inr, 0 <= k, k < k2, k2 < nIN[d], IN[d][k] != -1), IN[d][k] != IN[d][k2]))
        out["no_duplicate_destination"] = z3.ForAll([d, k, k2], z3.Implies(
            z3.And(inr, 0 <= k, k < k2, k2 < nOUT[d], OUT[d][k] != -1), OUT[d][k] != OUT[d][k2]))
        return out

    def view(self, field, owner):
        return SymList(self, field, as_int_z(owner))


class SymList(SymBase):
    """One module's table: a view (heap, field, owner index)."""

    __slots__ = ("heap", "field", "owner")

    def __init__(self, heap, field, owner):
        self.heap, self.field, self.owner = heap, field, owner

    def _arr(self):
        return z3.Select(self.heap.tab[self.field], self.owner)

    def sym_len(self):
        return _mkint(z3.Select(self.heap.len[self.field], self.owner))

    def __len__(self):
        raise Unsupported("len() of a symbolic-length list outside the interpreter")

    def __iter__(self):
        raise Unsupported("iteration over a symbolic-length list (needs a loop invariant)")

    def __hash__(self):
        return id(self)

    def _bounds(self, i):
        n = z3.Select(self.heap.len[self.field], self.owner)
        iz = as_int_z(i)
        if iz is None:
            raise Unsupported("non-integer index into a symbolic list")
        ok = _mkbool(z3.And(iz >= -n, iz < n))
        if not ok:
            raise IndexError("list index out of range")
        if _mkbool(iz < 0):
            iz = iz + n
        return iz

    def __getitem__(self, i):
        if isinstance(i, slice):
            raise Unsupported("slice of a symbolic-length list")
        iz = self._bounds(i)
        return _mkint(z3.Select(self._arr(), iz))

    def __setitem__(self, i, v):
        iz = self._bounds(i)
        vz = as_int_z(v)
        if vz is None:
            raise Unsupported("non-integer stored into a link table")
        h = self.heap
        h.tab[self.field] = z3.Store(h.tab[self.field], self.owner, z3.Store(self._arr(), iz, vz))

    def append(self, v):
        vz = as_int_z(v)
        if vz is None:
            raise Unsupported("non-integer appended to a link table")
        h = self.heap
        n = z3.Select(h.len[self.field], self.owner)
        h.tab[self.field] = z3.Store(h.tab[self.field], self.owner, z3.Store(self._arr(), n, vz))
        h.len[self.field] = z3.Store(h.len[self.field], self.owner, n + 1)

    def sym_contains(self, x):
        """x in L, as a symbolic truth value with a witness (Skolem) for the positive case."""
        c = ctx()
        xz = as_int_z(x)
        if xz is None:
            return False
        n = z3.Select(self.heap.len[self.field], self.owner)
        arr = self._arr()
        b = z3.Bool(c.fresh_name("contains"))
        w = z3.Int(c.fresh_name("wit"))
        q = z3.Int("q!")
        c.add(z3.Implies(b, z3.And(0 <= w, w < n, z3.Select(arr, w) == xz)))
        c.add(z3.Implies(z3.Not(b), z3.ForAll([q], z3.Implies(z3.And(0 <= q, q < n), z3.Select(arr, q) != xz))))
        return SymBool(b)

    def __contains__(self, x):
        return bool(self.sym_contains(x))

    def index(self, x, *a):
        if a:
            raise Unsupported("list.index with start/stop on a symbolic list")
        c = ctx()
        xz = as_int_z(x)
        n = z3.Select(self.heap.len[self.field], self.owner)
        arr = self._arr()
        if not self.sym_contains(x):
            raise ValueError(f"{x!r} is not in list")
        k = z3.Int(c.fresh_name("idx"))
        q = z3.Int("q!")
        c.add(z3.And(0 <= k, k < n, z3.Select(arr, k) == xz))
        c.add(z3.ForAll([q], z3.Implies(z3.And(0 <= q, q < k), z3.Select(arr, q) != xz)))
        return SymInt(k)


class RefHeap:
    """A list of object references of arbitrary length: refs are integers, 0 is None."""

    def __init__(self, tag="mods"):
        self.tab = {"items": z3.Const(f"{tag}.items", TBL)}
        self.len = {"items": z3.Const(f"{tag}.len", LEN)}
        self.N = z3.IntVal(1)
        self.refs = {}  # id(obj) -> (obj, z3 Int)
        self.tag = tag

    def snapshot(self):
        s = RefHeap.__new__(RefHeap)
        s.tab, s.len, s.N, s.refs, s.tag = dict(self.tab), dict(self.len), self.N, self.refs, self.tag
        return s

    def ref(self, obj):
        if obj is None:
            return z3.IntVal(0)
        r = self.refs.get(id(obj))
        if r is None:
            raise Unsupported(f"object {type(obj).__name__} has no reference in the symbolic list")
        return r[1]

    def register(self, obj, name):
        v = z3.Int(f"{self.tag}.ref.{name}")
        self.refs[id(obj)] = (obj, v)
        ctx().add(v >= 1)
        return v

    def items(self):
        return z3.Select(self.tab["items"], 0)

    def length(self):
        return z3.Select(self.len["items"], 0)

    def view(self):
        return SymRefList(self, "items", z3.IntVal(0))


class SymRefList(SymList):
    """SymList whose elements are object references (None or registered objects)."""

    __slots__ = ()

    def _r(self, x):
        if isinstance(x, (SymInt,)):
            return x
        return SymInt(self.heap.ref(x))

    def sym_contains(self, x):
        return SymList.sym_contains(self, self._r(x))

    def index(self, x, *a):
        return SymList.index(self, self._r(x), *a)

    def append(self, v):
        SymList.append(self, self._r(v))

    def __setitem__(self, i, v):
        SymList.__setitem__(self, i, self._r(v))

    def __getitem__(self, i):
        raise Unsupported("reading an object back out of a symbolic reference list")
