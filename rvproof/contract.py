"""Contract registry.

A contract is a named, machine-checked specification of one or more real functions of /repo.
Its `body(H, case)` builds real objects, makes their scalar leaves symbolic through `H`, runs the
real functions through `H.call` (the interpreter in symbolic mode, CPython in replay mode) and
states the post-conditions with `H.check(name, cond)`.  The same text therefore serves as the
verification condition generator input, as the native replay harness for counterexamples and as
the run-time contract for bounded stand-ins.
"""
from __future__ import annotations

REGISTRY = {}  # prop -> [Contract]


class Contract:
    def __init__(self, name, props, targets, cases, body, kind="deductive", canary=False,
                 tiers=("quick", "thorough"), doc="", timeout_ms=None, bound=None, max_paths=None, replayable=True):
        self.name = name
        self.props = props
        self.targets = targets
        self.cases_fn = cases
        self.body = body
        self.kind = kind  # deductive | bounded | ground
        self.canary = canary
        self.tiers = tiers
        self.doc = doc or (body.__doc__ or "").strip()
        self.timeout_ms = timeout_ms
        self.bound = bound  # human-readable statement of the bound for kind == 'bounded'
        self.max_paths = max_paths
        # False for contracts over the array-theory heap: a counter-model cannot be turned into real
        # objects, so a refutation is reported per DESIGN.md 2.6 item 3 (ledger + no-failing-input-found)
        self.replayable = replayable
        self._cases = {}

    def cases(self, tier):
        if tier not in self._cases:
            cs = self.cases_fn(tier) if self.cases_fn else [("-", None)]
            self._cases[tier] = list(cs)
        return self._cases[tier]


def contract(name, props, targets=(), cases=None, **kw):
    def deco(body):
        c = Contract(name, list(props), list(targets), cases, body, **kw)
        for p in c.props:
            REGISTRY.setdefault(p, []).append(c)
        return body

    return deco
