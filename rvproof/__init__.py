"""rvproof: contract-based deductive verification machinery for radiant-voices.

sym      symbolic values + path context (z3)
interp   meta-circular AST interpreter over the loaded rv code
models   library models (struct, bytes, BytesIO, ...)
runner   obligations, replay, evidence, CLI
"""
