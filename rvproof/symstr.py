"""Strings with symbolic content (concrete number of code points)."""
from .sym import Unsupported


def decode_utf8(sb, encoding="utf-8", errors="strict"):
    from .models import SymBytes

    if not isinstance(sb, SymBytes):
        return bytes(sb).decode(encoding, errors)
    from . import strings

    return strings.decode(sb, encoding, errors)
