"""Differential tests of the library models against CPython (run at the start of every check).

Values are injected as symbolic leaves whose bounds pin them to one value, so that the SYMBOLIC code
paths of the models run (nothing is simplified away); results are concretised through the solver and
compared with what CPython computes natively."""
from __future__ import annotations

import random
import struct

import z3

from . import floats, models, strings, sym
from .sym import PathCtx, SymInt, SymBool


def _pin(c, name, v):
    return c.int_leaf(name, v, v)


def _val(c, x):
    if isinstance(x, (SymInt, SymBool)):
        z = sym.as_int_z(x)
        return c.unique_value(z)
    return x


def _bytes_val(c, b):
    return bytes(_val(c, x) for x in models.byte_items(b))


def run(seed=0, n=120):
    rng = random.Random(seed)
    bad = []
    k = 0

    def fresh():
        nonlocal k
        c = PathCtx([], 10000)
        sym.set_ctx(c)
        k += 1
        return c

    try:
        # ---- struct
        fmts = ["<I", "<i", "<H", "<h", "<B", "<b", ">I", ">h", "<BBHHH", "<BBBBHBB", "BBB", "<HBBB", "<Q", "<q"]
        ranges = {"I": (0, 2**32 - 1), "i": (-2**31, 2**31 - 1), "H": (0, 65535), "h": (-32768, 32767), "B": (0, 255), "b": (-128, 127),
                  "Q": (0, 2**64 - 1), "q": (-2**63, 2**63 - 1)}
        for _ in range(n):
            fmt = rng.choice(fmts)
            codes = [ch for ch in fmt if ch.isalpha()]
            vals = []
            for ch in codes:
                lo, hi = ranges[ch]
                vals.append(rng.choice([lo, hi, 0 if lo <= 0 else lo, rng.randint(lo, hi), rng.randint(lo, hi)]))
            c = fresh()
            svals = [_pin(c, f"v{i}", v) for i, v in enumerate(vals)]
            got = _bytes_val(c, models.pack(fmt, *svals))
            want = struct.pack(fmt, *vals)
            if got != want:
                bad.append(("pack", fmt, vals, got, want))
            # unpack of symbolic bytes (no provenance): fresh byte leaves
            c = fresh()
            sb = models.mkbytes([_pin(c, f"b{i}", x) for i, x in enumerate(want)])
            got2 = tuple(_val(c, x) for x in models.unpack(fmt, sb))
            if got2 != struct.unpack(fmt, want):
                bad.append(("unpack", fmt, want, got2))
            # out-of-range packing must raise struct.error
            ch = codes[0]
            lo, hi = ranges[ch]
            c = fresh()
            try:
                models.pack("<" + ch, _pin(c, "o", rng.choice([lo - 1, hi + 1])))
                bad.append(("pack-range", ch))
            except struct.error:
                pass
        # ---- integer bit operations and floor division / modulo (LIA + BV back ends)
        for _ in range(n):
            a, b = rng.randint(-2**20, 2**33), rng.randint(-2**20, 2**33)
            m = rng.choice([0xFF, 0xFF00, 0x7, 0b11111, 0x3F << 6, 1 << 31, -256, 0xFFFF, 3 << 24])
            sh = rng.randint(0, 20)
            d = rng.choice([1, 2, 3, 7, 128, 256, 32768, -3, -128])
            c = fresh()
            x, y = _pin(c, "x", a), _pin(c, "y", abs(b) % 2**16)
            ay = abs(b) % 2**16
            ax = abs(a) % 2**16
            x16 = _pin(c, "x16", ax)
            checks = [
                ("and", x & m, a & m), ("or", x | (m if m >= 0 else 5), a | (m if m >= 0 else 5)), ("xor", x ^ 0x55, a ^ 0x55),
                ("shl", x << sh, a << sh), ("shr", x >> sh, a >> sh), ("fdiv", x // d, a // d), ("mod", x % d, a % d),
                ("symand", x16 & y, ax & ay), ("symor", x16 | y, ax | ay), ("symxor", x16 ^ y, ax ^ ay), ("inv", ~x, ~a),
            ]
            for name, got, want in checks:
                g = _val(c, got)
                if g != want:
                    bad.append((name, a, b, m, sh, d, g, want))
        # ---- bytes operations
        for _ in range(n // 2):
            raw = bytes(rng.choice([0, 0, 65, 200, 7]) for _ in range(rng.randint(0, 12)))
            c = fresh()
            sb = models.mkbytes([_pin(c, f"b{i}", x) for i, x in enumerate(raw)]) if raw else raw
            if raw:
                if _val(c, sb.find(0)) != raw.find(0):
                    bad.append(("find", raw))
                if _bytes_val(c, sb.rstrip(b"\0")) != raw.rstrip(b"\0"):
                    bad.append(("rstrip", raw))
                if _bytes_val(c, sb.ljust(16, b"\0")) != raw.ljust(16, b"\0"):
                    bad.append(("ljust", raw))
                if bool(0 in sb) != (0 in raw):
                    bad.append(("contains", raw))
        # ---- utf-8
        pool = [0x41, 0x7F, 0x80, 0xE9, 0x7FF, 0x800, 0x20AC, 0xD7FF, 0xE000, 0xFFFF, 0x10000, 0x1F600, 0x10FFFF, 1]
        for _ in range(n // 2):
            cps = [rng.choice(pool) for _ in range(rng.randint(0, 6))]
            text = "".join(map(chr, cps))
            c = fresh()
            ss = strings.mkstr([_pin(c, f"c{i}", x) for i, x in enumerate(cps)])
            enc = ss.encode("utf8") if cps else b""
            if _bytes_val(c, enc) != text.encode("utf8"):
                bad.append(("utf8-encode", cps))
            raw = text.encode("utf8")
            cut = raw[: rng.randint(0, len(raw))] + bytes(rng.choice([[], [0xC3], [0xFF], [0x80], [0xE2, 0x82], [0xED, 0xA0, 0x80]]))
            for errors in ("strict", "ignore"):
                c = fresh()
                sb = models.mkbytes([_pin(c, f"b{i}", x) for i, x in enumerate(cut)]) if cut else cut
                try:
                    want = cut.decode("utf8", errors)
                except UnicodeDecodeError:
                    want = UnicodeDecodeError
                try:
                    got = strings.decode(sb, "utf8", errors) if cut else ""
                    got = "".join(chr(_val(c, x)) for x in strings.cps_of(got))
                except UnicodeDecodeError:
                    got = UnicodeDecodeError
                if got != want:
                    bad.append(("utf8-decode", cut, errors, got, want))
        # ---- floats
        for _ in range(n // 2):
            a = rng.randint(0, 32768)
            span = rng.choice([1, 7, 240, 256, 1000, 1530, 22000, 32768, 44100])
            g = rng.randint(0, 1024)
            c = fresh()
            x = _pin(c, "x", a)
            res = floats.to_float(x / (span / 32768)).to_int()
            want = int(a / (span / 32768))
            # a rounded (inexact) division is modelled by facts about RN, i.e. over-approximated:
            # soundness = CPython's value is among the values the model allows, and the model never
            # strays by more than one unit in the last place of the truncated result
            if isinstance(res, (SymInt, SymBool)):
                rz = sym.as_int_z(res)
                r1, _ = c._check(rz == want)
                r2, _ = c._check(z3.Or(rz < want - 1, rz > want + 1))
                if r1 != z3.sat or r2 != z3.unsat:
                    bad.append(("float-div", a, span, str(r1), str(r2), want))
            elif res != want:
                bad.append(("float-div", a, span, res, want))
            got2 = _val(c, ((x * g) / 256).to_int()) if g else 0
            if got2 != int((a * g) / 256):
                bad.append(("float-dyadic", a, g, got2))
    finally:
        sym.set_ctx(None)
    return bad, k
