"""Float models (filled in by rvproof.floats when loaded)."""
import struct as _struct

from .sym import Unsupported, is_sym


def pack_f32(v, little):
    if is_sym(v):
        from . import floats

        return floats.pack_f32(v, little)
    return list(_struct.pack("<f" if little else ">f", v))


def unpack_f32(bs, little):
    if all(isinstance(b, int) for b in bs):
        return _struct.unpack("<f" if little else ">f", bytes(bs))[0]
    from . import floats

    return floats.unpack_f32(bs, little)
