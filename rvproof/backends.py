"""Fall-back solvers for queries z3 (Python API) leaves `unknown`: cvc5 and the z3 5.1 CLI."""
from __future__ import annotations

import os
import re
import shutil
import subprocess
import tempfile
import time

import z3

FALLBACK_TIMEOUT_S = int(os.environ.get("RVPROOF_FALLBACK_TIMEOUT", "60"))


def _run(cmd, text, timeout):
    try:
        p = subprocess.run(cmd, input=text, capture_output=True, text=True, timeout=timeout + 5)
        return p.stdout
    except subprocess.TimeoutExpired:
        return "timeout"
    except OSError as e:
        return f"error {e}"


def fallback_prove(pctx, goal, budget_s=None):
    """-> (status, backend, model_dict_or_None)"""
    FALLBACK_TIMEOUT_S = budget_s or globals()["FALLBACK_TIMEOUT_S"]
    smt = pctx.smt2(z3.Not(goal))
    leaves = [n for n in pctx.leaf_order]
    getvals = ""
    if leaves:
        names = " ".join(f"|{n}|" if not re.fullmatch(r"[A-Za-z_][A-Za-z0-9_]*", n) else n for n in leaves)
        getvals = f"(get-value ({names}))\n"
    text = smt.replace("(check-sat)", "(check-sat)\n" + getvals)
    tried = []
    for backend, cmd in (
        ("cvc5", ["/usr/bin/cvc5", "--lang=smt2", "--produce-models", f"--tlimit={FALLBACK_TIMEOUT_S * 1000}"]),
        ("z3-cli", [shutil.which("z3-new") or "z3", "-in", f"-T:{FALLBACK_TIMEOUT_S}"]),
    ):
        if not os.path.exists(cmd[0]) and not shutil.which(cmd[0]):
            continue
        t0 = time.time()
        out = _run(cmd, text if backend != "cvc5" else "(set-logic ALL)\n" + text, FALLBACK_TIMEOUT_S)
        pctx.stats.add(backend, time.time() - t0)
        tried.append(backend)
        first = out.strip().splitlines()[0] if out.strip() else ""
        if first == "unsat":
            return "valid", backend, None
        if first == "sat":
            model = {}
            for m in re.finditer(r"\(\s*(\|[^|]+\||[^\s()]+)\s+(\(-\s*\d+\)|-?\d+|true|false)\s*\)", out):
                k = m.group(1).strip("|")
                v = m.group(2)
                if v in ("true", "false"):
                    model[k] = v == "true"
                else:
                    v = v.replace("(", "").replace(")", "").replace(" ", "")
                    model[k] = int(v)
            return "refuted", backend, model
    return "unknown", "+".join(tried) or "none", None
