"""Runs the contracts of one property, replays counterexamples, writes evidence, sets the exit code.

exit 0  every obligation discharged (bounded stand-ins clean), only KNOWN-FINDING lines
exit 1  at least one VIOLATION line
exit 2  undecided (unknown / unsupported / missing ledger obligation), no violation
exit 3  checker defect (canary verified, engine disagrees with CPython, traceback, vacuous case)
"""
from __future__ import annotations

import argparse
import fnmatch
import hashlib
import importlib
import json
import logging
import multiprocessing as mp
import os
import random
import re
import sys
import time
import traceback

VERIF = os.path.realpath(os.path.join(os.path.dirname(__file__), ".."))
REPO = os.environ.get("RV_REPO", "/repo")
REPO_SRC = os.path.join(REPO, "src", "python")

PROPS = [f"C{n:02d}" for n in range(1, 21)]


def _setup_imports():
    os.environ.setdefault("PYTHONDONTWRITEBYTECODE", "1")
    sys.dont_write_bytecode = True
    if REPO_SRC not in sys.path:
        sys.path.insert(0, REPO_SRC)
    if VERIF not in sys.path:
        sys.path.insert(0, VERIF)
    logging.disable(logging.CRITICAL)
    import rv.api  # noqa: F401  (must precede rv.note / rv.pattern imports)

    f = os.path.realpath(rv.api.__file__)
    if not f.startswith(os.path.realpath(REPO_SRC)):
        raise SystemExit(f"checker defect: rv imported from {f}, not from {REPO_SRC}")


def load_contracts(prop):
    from .contract import REGISTRY

    import glob

    importlib.import_module(f"contracts.{prop.lower()}")  # must exist
    # contracts serving several properties live in one module and register for all of them
    for path in sorted(glob.glob(os.path.join(VERIF, "contracts", "c[0-9][0-9].py"))):
        importlib.import_module("contracts." + os.path.basename(path)[:-3])
    return REGISTRY.get(prop, [])


# ------------------------------------------------------------------------------- worker

_W = {}


def _worker_init(prop, tier, seed, cfg):
    _setup_imports()
    _W["contracts"] = load_contracts(prop)
    _W["tier"] = tier
    _W["seed"] = seed
    _W["cfg"] = cfg


def _sanitize(s):
    return re.sub(r"[^A-Za-z0-9_.=,+-]", "_", str(s))[:150]


def run_case(job):
    ci, ki = job
    c = _W["contracts"][ci]
    tier = _W["tier"]
    cfg = _W["cfg"]
    case_id, case = c.cases(tier)[ki]
    out = {
        "contract": c.name, "case": case_id, "kind": c.kind, "canary": c.canary,
        "obligations": [], "paths": 0, "path_status": {}, "covers": {}, "unsupported": [],
        "solver_time": 0.0, "queries": 0, "by_backend": {}, "wall": 0.0, "selfcheck": None,
        "sources": {}, "error": None, "native_evals": 0,
    }
    t0 = time.time()
    try:
        if c.kind == "deductive":
            _run_deductive(c, case_id, case, cfg, out)
        else:
            _run_native(c, case_id, case, cfg, out)
    except BaseException as e:  # noqa
        out["error"] = "".join(traceback.format_exception(type(e), e, e.__traceback__))[-3000:]
    out["wall"] = time.time() - t0
    return out


def _run_native(c, case_id, case, cfg, out):
    from .engine import Harness, _reset_globals
    from .sym import PathInfeasible

    rng = random.Random(f"{_W['seed']}/{c.name}/{case_id}")
    H = Harness("replay", rng=rng)
    H.keep_all = False
    H.tier = _W["tier"]
    _reset_globals()
    try:
        c.body(H, case)
    except PathInfeasible:
        pass
    except Exception as e:  # noqa  an exception escaping from the code under test
        tb = "".join(traceback.format_exception(type(e), e, e.__traceback__))[-1500:]
        a = H.agg.setdefault("no_unexpected_exception", [0, 0, None])
        a[1] += 1
        a[2] = {"exception": f"{type(e).__name__}: {e}", "traceback": tb}
    finally:
        _reset_globals()
    H.agg.setdefault("no_unexpected_exception", [1, 0, None])
    out["paths"] = 1
    out["path_status"] = {"ok": 1}
    out["covers"] = H.covers
    for name, (n_ok, n_fail, wit) in H.agg.items():
        out["native_evals"] += n_ok + n_fail
        ob = {
            "check": name, "status": "discharged" if n_fail == 0 else "violated",
            "backend": "eval" if c.kind == "ground" else "native-bounded",
            "evals": n_ok + n_fail, "fails": n_fail, "t": 0.0, "paths": 1,
        }
        if n_fail:
            ob["witness"] = wit
            ob["replay"] = {"confirmed": True, "observed": f"{n_fail} of {n_ok + n_fail} native evaluations false",
                            "witness": wit}
            ob["model"] = {}
            ob["choices"] = {}
        out["obligations"].append(ob)


def _run_deductive(c, case_id, case, cfg, out):
    from .engine import explore, replay_native, run_concrete_interp
    from .interp import SOURCES_SEEN

    timeout_ms = c.timeout_ms or cfg["timeout_ms"]
    deadline = min(time.time() + cfg["case_deadline_s"], cfg["run_deadline"])
    if time.time() > cfg["run_deadline"]:
        out["unsupported"].append("run deadline reached before this case started")
        return
    records, stats, interp = explore(c.body, case, timeout_ms=timeout_ms,
                                     max_paths=c.max_paths or cfg["max_paths"], deadline=deadline, tier=_W["tier"],
                                     fallback=not c.canary)
    out["paths"] = len(records)
    out["solver_time"] = stats.solver_time
    out["queries"] = stats.queries
    out["by_backend"] = dict(stats.by_backend)
    out["sources"] = dict(SOURCES_SEEN)
    merged = {}
    for rec in records:
        out["path_status"][rec.status] = out["path_status"].get(rec.status, 0) + 1
        for k, v in rec.covers.items():
            out["covers"][k] = out["covers"].get(k, 0) + v
        if rec.status == "unsupported":
            out["unsupported"].append(rec.detail)
        results = list(rec.results)
        if rec.status == "exception":
            results.append(("no_unexpected_exception", "violated",
                            {"backend": "z3", "model": rec.exc_model or {}, "t": 0.0,
                             "exception": rec.detail, "tb": getattr(rec, "tb", "")}))
        for name, status, info in results:
            m = merged.setdefault(name, {"check": name, "status": "discharged", "paths": 0, "t": 0.0,
                                         "backends": {}, "path_obligations": 0})
            m["paths"] += 1
            m["path_obligations"] += 1
            m["t"] += info.get("t", 0.0)
            b = info.get("backend", "?")
            m["backends"][b] = m["backends"].get(b, 0) + 1
            if status == "violated" and m["status"] != "violated":
                m["status"] = "violated"
                m["model"] = info.get("model") or {}
                m["choices"] = dict(rec.named_choices)
                if "exception" in info:
                    m["exception"] = info["exception"]
                    m["tb"] = info.get("tb", "")
            elif status == "undecided" and m["status"] == "discharged":
                m["status"] = "undecided"
                m["why"] = info.get("why", "")
    # an implicit obligation that is always present, so that its disappearance is visible
    if "no_unexpected_exception" not in merged:
        n_ok = out["path_status"].get("ok", 0)
        merged["no_unexpected_exception"] = {
            "check": "no_unexpected_exception", "status": "discharged", "paths": n_ok, "t": 0.0,
            "backends": {"paths": n_ok}, "path_obligations": n_ok,
        }
    # native replay of every refutation
    for m in merged.values():
        if m["status"] != "violated":
            continue
        if not c.replayable:
            m["replay"] = {"confirmed": False, "not_replayable": True,
                           "observed": "solver refuted the obligation; the counter-model lives in the array-theory heap and cannot be built as real objects"}
            continue
        H, exc = replay_native(c.body, case, m.get("model") or {}, m.get("choices") or {}, tier=_W["tier"])
        rep = {"confirmed": False, "observed": None}
        if m["check"] == "no_unexpected_exception":
            if isinstance(exc, BaseException):
                rep["confirmed"] = True
                rep["observed"] = f"native run raised {type(exc).__name__}: {exc}"
            else:
                rep["observed"] = f"native run raised nothing (engine reported {m.get('exception')})"
        else:
            st = [s for (n, s, _i) in H.results if n == m["check"]]
            if "violated" in st:
                rep["confirmed"] = True
                rep["observed"] = "clause evaluated to False natively on the model's inputs"
            elif isinstance(exc, BaseException):
                rep["observed"] = f"native run raised {type(exc).__name__}: {exc} before the clause"
                rep["native_exception"] = True
            elif exc == "infeasible":
                rep["observed"] = "model rejected by an assumption natively"
            else:
                rep["observed"] = "clause held natively (engine/CPython disagreement)"
        m["replay"] = rep
    out["obligations"] = list(merged.values())
    # fallback ladder (DESIGN.md 2.8): code the engine cannot interpret is never reported as violating
    # and never left undecided if the same contract can be evaluated natively: run-time contract
    # evaluation on boundary-biased random inputs, reported as a bounded stand-in (not proved)
    hard = [u for u in out["unsupported"] if u and "deadline" not in u and "budget" not in u]
    if hard and c.replayable:
        from .engine import Harness, _reset_globals
        from .sym import PathInfeasible

        rng_fb = random.Random(f"fb/{_W['seed']}/{c.name}/{case_id}")
        n_fb = 40 if _W["tier"] == "quick" else 400
        agg = {}
        ran = 0
        for _i in range(n_fb):
            Hn = Harness("replay", rng=rng_fb)
            Hn.tier = _W["tier"]
            Hn.keep_all = False
            _reset_globals()
            try:
                c.body(Hn, case)
            except PathInfeasible:
                continue
            except BaseException as e:  # noqa
                a = agg.setdefault("no_unexpected_exception", [0, 0, None])
                a[1] += 1
                a[2] = a[2] or {"exception": f"{type(e).__name__}: {e}", "inputs": dict(Hn.leaf_log), "choices": dict(Hn.named_choices)}
            finally:
                _reset_globals()
            ran += 1
            for name, (n_ok, n_fail, wit) in Hn.agg.items():
                a = agg.setdefault(name, [0, 0, None])
                a[0] += n_ok
                a[1] += n_fail
                if n_fail and a[2] is None:
                    a[2] = {"inputs": dict(Hn.leaf_log), "choices": dict(Hn.named_choices), "witness": wit}
        out["fallback"] = {"reason": hard[0][:300], "native_runs": ran}
        out["unsupported"] = [u for u in out["unsupported"] if u not in hard]
        have = {m["check"] for m in out["obligations"]}
        for name, (n_ok, n_fail, wit) in agg.items():
            if name in have and not n_fail:
                continue
            ob = {"check": name, "status": "discharged" if n_fail == 0 else "violated", "backend": "native-fallback",
                  "evals": n_ok + n_fail, "fails": n_fail, "t": 0.0, "paths": 1, "fallback": True}
            if n_fail:
                ob["witness"] = wit
                ob["model"] = (wit or {}).get("inputs", {})
                ob["choices"] = (wit or {}).get("choices", {})
                ob["replay"] = {"confirmed": True, "observed": f"{n_fail} of {n_ok + n_fail} native evaluations false", "witness": wit}
                out["obligations"] = [m for m in out["obligations"] if m["check"] != name]
            out["obligations"].append(ob)
    # engine-vs-CPython differential on concrete inputs
    n_diff = cfg.get("selfcheck_samples", 2) if c.replayable else 0
    sc = {"samples": 0, "mismatches": []}
    rng = random.Random(f"{_W['seed']}/{c.name}/{case_id}")
    for _ in range(n_diff):
        from .engine import Harness, _reset_globals

        Hn = Harness("replay", rng=rng)
        Hn.tier = _W["tier"]
        _reset_globals()
        excn = None
        try:
            c.body(Hn, case)
        except BaseException as e:  # noqa
            excn = e
        _reset_globals()
        from .sym import PathInfeasible

        if isinstance(excn, PathInfeasible):
            continue
        Hi, exci = run_concrete_interp(c.body, case, Hn.leaf_log, Hn.named_choices, tier=_W["tier"])
        from .sym import EngineError

        if isinstance(exci, EngineError) or exci == "infeasible":
            continue  # outside the subset on this input: no comparison possible
        sc["samples"] += 1
        a = [(n, s) for (n, s, _i) in Hn.results]
        b = [(n, s) for (n, s, _i) in Hi.results]
        ea = type(excn).__name__ if isinstance(excn, BaseException) else None
        eb = type(exci).__name__ if isinstance(exci, BaseException) else None
        if a != b or ea != eb:
            sc["mismatches"].append({"leaves": {k: repr(v) for k, v in Hn.leaf_log.items()},
                                     "choices": Hn.named_choices, "native": [a, ea], "interp": [b, eb]})
    out["selfcheck"] = sc


# ------------------------------------------------------------------------------- main


def load_known_findings():
    path = os.path.join(VERIF, "KNOWN_FINDINGS.jsonl")
    known, fixed = [], []
    if os.path.exists(path):
        for line in open(path):
            line = line.strip()
            if not line or line.startswith("#"):
                continue
            if line.startswith("fixed:"):
                fixed.append(line)
                continue
            known.append(json.loads(line))
    return known, fixed


def match_known(known, prop, ob_id, ob):
    for k in known:
        props = k.get("property")
        if prop not in (props if isinstance(props, list) else [props]):
            continue
        # the obligation id of a contract that serves several properties differs only in its prefix
        pat = k["obligation"]
        if not fnmatch.fnmatchcase(ob_id, pat) and not fnmatch.fnmatchcase(ob_id.split("/", 1)[1], pat.split("/", 1)[1] if "/" in pat else pat):
            continue
        return k
    return None


def main(argv=None):
    ap = argparse.ArgumentParser()
    ap.add_argument("prop")
    ap.add_argument("--tier", default=os.environ.get("VERIF_TIER", "quick"))
    ap.add_argument("--replay")
    ap.add_argument("--jobs", type=int, default=int(os.environ.get("VERIF_JOBS", "16")))
    ap.add_argument("--only", help="substring filter on contract names (development)")
    ap.add_argument("--case", help="substring filter on case ids (development)")
    ap.add_argument("--update-ledger", action="store_true")
    ap.add_argument("--no-evidence", action="store_true")
    ap.add_argument("-v", action="store_true")
    args = ap.parse_args(argv)
    prop = args.prop.upper()
    tier = args.tier if args.tier in ("quick", "thorough") else "quick"
    seed = int(os.environ.get("VERIF_SEED", "0") or 0)
    _setup_imports()
    if args.replay:
        return do_replay(prop, args.replay)
    t_start = time.time()
    cfg = {
        "timeout_ms": 10000 if tier == "quick" else 120000,
        "case_deadline_s": int(os.environ.get("VERIF_CASE_DEADLINE_S", 240 if tier == "quick" else 3000)),
        "run_deadline": time.time() + (1800 if tier == "quick" else 6 * 3600),
        "max_paths": 4000 if tier == "quick" else 50000,
        "selfcheck_samples": 2 if tier == "quick" else 5,
    }
    # differential test of the library models against CPython (DESIGN.md 2.5), every run
    from . import selftest

    st_bad, st_cases = selftest.run(seed, 10 if tier == "quick" else 60)
    if st_bad:
        for b in st_bad[:10]:
            print(f"CHECKER-DEFECT property={prop} library model disagrees with CPython: {b}")
        return 3
    cfg["model_selftest_cases"] = st_cases
    try:
        contracts = load_contracts(prop)
    except Exception:
        traceback.print_exc()
        print(f"CHECKER-DEFECT property={prop} cannot load contracts")
        return 3
    if not contracts:
        print(f"CHECKER-DEFECT property={prop} has no contracts")
        return 3
    jobs = []
    for ci, c in enumerate(contracts):
        if tier not in c.tiers:
            continue
        if args.only and args.only not in c.name:
            continue
        for ki, (case_id, _case) in enumerate(c.cases(tier)):
            if args.case and args.case not in str(case_id):
                continue
            jobs.append((ci, ki))
    if not jobs:
        print(f"CHECKER-DEFECT property={prop}: zero cases generated")
        return 3
    # longest-first is unknown; shuffle deterministically for load balance
    random.Random(1).shuffle(jobs)
    nproc = max(1, min(args.jobs, len(jobs)))
    results = _run_jobs(jobs, nproc, prop, tier, seed, cfg, contracts)
    args.model_selftest_cases = st_cases
    return report(prop, tier, seed, contracts, results, args, time.time() - t_start)


def _case_child(job, conn):
    try:
        out = run_case(job)
        conn.send(out)
    except BaseException as e:  # noqa
        try:
            conn.send({"__crash__": "".join(traceback.format_exception(type(e), e, e.__traceback__))[-3000:]})
        except Exception:  # noqa
            pass
    finally:
        conn.close()
        os._exit(0)


def _run_jobs(jobs, nproc, prop, tier, seed, cfg, contracts):
    """One forked process per case, at most nproc at a time, each under a HARD wall-clock limit: a case whose
    solver call does not come back (z3 has been seen to ignore timeout, rlimit and interrupt inside non-linear
    real arithmetic on a changed tree) is killed and reported as undecided - never a hang, never a verdict."""
    from multiprocessing.connection import wait as mpwait

    _worker_init(prop, tier, seed, cfg)
    ctxmp = mp.get_context("fork")
    hard = cfg["case_deadline_s"] + 90
    pending = list(enumerate(jobs))
    live = {}  # conn -> (index, job, process, start)
    results = {}

    def blank(job, why):
        ci, ki = job
        c = contracts[ci]
        case_id = c.cases(tier)[ki][0]
        return {"contract": c.name, "case": case_id, "kind": c.kind, "canary": c.canary, "obligations": [], "paths": 0,
                "path_status": {}, "covers": {}, "unsupported": [why], "solver_time": 0.0, "queries": 0, "by_backend": {},
                "wall": float(hard), "selfcheck": None, "sources": {}, "error": None, "native_evals": 0}

    while pending or live:
        while pending and len(live) < nproc:
            i, job = pending.pop(0)
            rd, wr = ctxmp.Pipe(duplex=False)
            pr = ctxmp.Process(target=_case_child, args=(job, wr), daemon=True)
            pr.start()
            wr.close()
            live[rd] = (i, job, pr, time.time())
        ready = mpwait(list(live), timeout=1.0)
        for rd in ready:
            i, job, pr, _t0 = live.pop(rd)
            try:
                out = rd.recv()
            except (EOFError, OSError):
                out = {"__crash__": "worker exited without a result"}
            rd.close()
            pr.join(5)
            if "__crash__" in out:
                b = blank(job, "worker crashed")
                b["error"] = out["__crash__"]
                out = b
            results[i] = out
        now = time.time()
        for rd in [r for r, v in live.items() if now - v[3] > hard]:
            i, job, pr, _t0 = live.pop(rd)
            pr.kill()
            pr.join(5)
            rd.close()
            results[i] = blank(job, f"hard wall-clock limit: the case was killed after {hard} s (a solver call did not return)")
    return [results[i] for i in range(len(jobs))]


def report(prop, tier, seed, contracts, results, args, wall):
    known, fixed_lines = load_known_findings()
    _lp = os.path.join(VERIF, "contracts", "LEDGER.json")
    ledger_all = json.load(open(_lp)) if os.path.exists(_lp) else {}
    bycontract = {c.name: c for c in contracts}
    obligations = 0
    discharged = 0
    bounded_parts = []
    undecided = []
    violations = []
    known_hits = []
    defects = []
    canaries = []
    solver_time = 0.0
    by_backend = {}
    paths = 0
    covers = {}
    sources = {}
    samples = []
    slow = []
    native_evals = 0
    deductive_obs = 0
    deductive_discharged = 0
    ob_names = []
    selfcheck_samples = 0
    for r in results:
        c = bycontract[r["contract"]]
        paths += r["paths"]
        solver_time += r["solver_time"]
        native_evals += r.get("native_evals", 0)
        for k, v in r["by_backend"].items():
            by_backend[k] = by_backend.get(k, 0) + v
        for k, v in r["covers"].items():
            covers[f"{r['contract']}:{k}"] = covers.get(f"{r['contract']}:{k}", 0) + v
        sources.update(r.get("sources") or {})
        if r["error"]:
            defects.append(f"{r['contract']}/{r['case']}: traceback in checker: {r['error'][-800:]}")
            continue
        if r["selfcheck"]:
            selfcheck_samples += r["selfcheck"]["samples"]
            for mm in r["selfcheck"]["mismatches"]:
                defects.append(f"{r['contract']}/{r['case']}: engine disagrees with CPython on {mm}")
        if r["kind"] == "deductive" and not r["canary"]:
            if r["path_status"].get("ok", 0) + r["path_status"].get("exception", 0) == 0 and not r["unsupported"] and not r.get("fallback"):
                defects.append(f"{r['contract']}/{r['case']}: vacuous (no feasible complete path)")
        for u in r["unsupported"]:
            undecided.append({"obligation": f"{prop}/{r['contract']}/{r['case']}", "why": f"unsupported: {u}"})
        for ob in r["obligations"]:
            ob_id = f"{prop}/{r['contract']}/{r['case']}/{ob['check']}"
            if r["canary"]:
                rep = ob.get("replay") or {}
                if ob["check"] == "no_unexpected_exception":
                    continue
                ok = ob["status"] == "violated" and rep.get("confirmed")
                if not c.replayable:
                    # heap contracts: the false clause must at least NOT be proved (a refutation of a
                    # quantified formula usually comes back unknown)
                    ok = ob["status"] != "discharged"
                canaries.append({"obligation": ob_id, "refuted_and_replayed": bool(ok), "model": ob.get("model")})
                if not ok:
                    defects.append(f"canary {ob_id} was not refuted+replayed (status {ob['status']}, {rep})")
                continue
            npo = ob.get("path_obligations", 1)
            ob_names.append(ob_id)
            if ob.get("fallback"):
                bounded_parts.append({"obligation": ob_id, "bound": "FALLBACK: the engine could not interpret the code (" + (r.get("fallback") or {}).get("reason", "?")
                                      + f"); native contract evaluation on {ob.get('evals', 0)} boundary-biased random inputs",
                                      "evaluations": ob.get("evals", 0), "status": ob["status"]})
                if ob["status"] == "violated":
                    rep = ob.get("replay") or {}
                    k = match_known(known, prop, ob_id, ob)
                    entry = {"obligation": ob_id, "model": ob.get("model"), "choices": ob.get("choices"), "replay": rep, "exception": None,
                             "witness": ob.get("witness"), "contract": r["contract"], "case": r["case"], "check": ob["check"], "kind": "bounded"}
                    (known_hits.append((k, entry)) if k else violations.append(entry))
                continue
            if r["kind"] != "deductive":
                if r["kind"] == "bounded":
                    bounded_parts.append({"obligation": ob_id, "bound": c.bound, "evaluations": ob.get("evals", 0),
                                          "status": ob["status"]})
                else:
                    obligations += 1
                    deductive_obs += 1
            else:
                obligations += npo
                deductive_obs += npo
            if ob["status"] == "discharged":
                if r["kind"] != "bounded":
                    discharged += npo if r["kind"] == "deductive" else 1
                    deductive_discharged += npo if r["kind"] == "deductive" else 1
                if ob.get("t", 0) > 1.0:
                    slow.append((round(ob["t"], 2), ob_id))
                if len(samples) < 6 and r["kind"] == "deductive" and ob["check"] != "no_unexpected_exception":
                    samples.append({"obligation": ob_id, "status": "discharged", "paths": ob["paths"],
                                    "backends": ob.get("backends"), "solver_s": round(ob["t"], 4)})
            elif ob["status"] == "undecided":
                undecided.append({"obligation": ob_id, "why": ob.get("why", "solver unknown")})
            else:
                rep = ob.get("replay") or {}
                k = match_known(known, prop, ob_id, ob)
                entry = {"obligation": ob_id, "model": ob.get("model"), "choices": ob.get("choices"),
                         "replay": rep, "exception": ob.get("exception"), "witness": ob.get("witness"),
                         "contract": r["contract"], "case": r["case"], "check": ob["check"], "kind": r["kind"]}
                if rep.get("confirmed"):
                    if k:
                        known_hits.append((k, entry))
                        # not part of the claimed obligations
                        if r["kind"] == "deductive":
                            obligations -= npo
                            deductive_obs -= npo
                        elif r["kind"] == "ground":
                            obligations -= 1
                            deductive_obs -= 1
                    else:
                        violations.append(entry)
                elif rep.get("not_replayable"):
                    # discharged on the unchanged tree in ANY tier (an obligation id means the same in both)
                    in_ledger = any(ob_id in set(v) for v in ledger_all.get(prop, {}).values())
                    if k:
                        known_hits.append((k, entry))
                    elif in_ledger:
                        entry["no_input"] = True
                        violations.append(entry)
                    else:
                        undecided.append({"obligation": ob_id, "why": "refuted by the solver, not replayable and not in the ledger of discharged obligations"})
                elif rep.get("native_exception") or "rejected" in (rep.get("observed") or ""):
                    undecided.append({"obligation": ob_id, "why": f"refuted but replay inconclusive: {rep.get('observed')}"})
                else:
                    defects.append(f"{ob_id}: solver refuted, native replay holds: {rep.get('observed')} model={ob.get('model')}")
    # ledger
    ledger_path = os.path.join(VERIF, "contracts", "LEDGER.json")
    ledger = {}
    if os.path.exists(ledger_path):
        ledger = json.load(open(ledger_path))
    missing = []
    if not args.only and not args.case and not args.update_ledger:
        have = set(ob_names)
        for ob_id in ledger.get(prop, {}).get(tier, []):
            if ob_id not in have:
                missing.append(ob_id)
        for ob_id in missing:
            if match_known(known, prop, ob_id, None):
                continue
            undecided.append({"obligation": ob_id, "why": "ledger obligation was not generated on this tree"})
    # vacuity
    if obligations + len(bounded_parts) == 0:
        defects.append("zero obligations generated")

    # ---- output
    replay_dir = os.path.join(VERIF, "replays", prop)
    rc = 0
    lines = []
    for k, entry in known_hits:
        pass
    seen_known = set()
    for k, entry in known_hits:
        key = k["obligation"]
        if key in seen_known:
            continue
        seen_known.add(key)
        lines.append(f"KNOWN-FINDING: property={prop} {k['what']} [{entry['obligation']}]")
    for v in violations:
        os.makedirs(replay_dir, exist_ok=True)
        fn = os.path.join(replay_dir, _sanitize(v["obligation"].replace("/", "__")) + ".json")
        c = bycontract[v["contract"]]
        rec = {
            "property": prop, "obligation": v["obligation"], "contract": v["contract"], "case": v["case"],
            "check": v["check"], "tier": tier, "inputs": v["model"], "choices": v["choices"],
            "witness": v.get("witness"), "exception": v.get("exception"),
            "native_replay": v["replay"], "targets": c.targets, "doc": c.doc,
            "rerun": f"./check {prop} --replay {fn}",
        }
        if v.get("no_input"):
            rec["note"] = ("obligation discharged on the unchanged tree (contracts/LEDGER.json) is now refuted by the solver; "
                           "no concrete failing input could be constructed from the counter-model")
        json.dump(rec, open(fn, "w"), indent=1, default=repr)
        lines.append(f"VIOLATION property={prop} replay={fn}" + (" no-failing-input-found" if v.get("no_input") else ""))
        rc = 1
    for l in lines:
        print(l)
    if defects:
        for d in defects[:20]:
            print(f"CHECKER-DEFECT property={prop} {d}")
        rc = 3 if rc == 0 else rc
    if undecided:
        for u in undecided[:12]:
            print(f"UNDECIDED property={prop} {u['obligation']}: {u['why'][:300]}")
        if len(undecided) > 12:
            print(f"UNDECIDED property={prop} ... {len(undecided) - 12} more")
        if rc == 0:
            rc = 2
    print(f"{prop} tier={tier} obligations={obligations} discharged={discharged} bounded={len(bounded_parts)} "
          f"undecided={len(undecided)} known={len(seen_known)} violations={len(violations)} "
          f"paths={paths} solver={solver_time:.1f}s time={wall:.1f}s")

    if args.update_ledger:
        if rc != 0:
            print("ledger NOT updated: run was not green")
        else:
            ledger.setdefault(prop, {})[tier] = sorted(set(ob_names))
            json.dump(ledger, open(ledger_path, "w"), indent=0, sort_keys=True)
            print(f"ledger updated: {len(set(ob_names))} obligations for {prop}/{tier}")

    if not args.no_evidence and not args.only and not args.case:
        write_evidence(prop, tier, seed, contracts, results, dict(
            obligations=obligations, discharged=discharged, bounded_parts=bounded_parts, undecided=undecided,
            violations=violations, known_hits=known_hits, defects=defects, canaries=canaries,
            solver_time=solver_time, by_backend=by_backend, paths=paths, covers=covers, sources=sources,
            samples=samples, slow=sorted(slow, reverse=True)[:10], native_evals=native_evals,
            selfcheck_samples=selfcheck_samples, wall=wall, ob_names=ob_names, missing=missing,
            model_selftest_cases=getattr(args, "model_selftest_cases", 0)))
    return rc


def write_evidence(prop, tier, seed, contracts, results, a):
    from .evidence import build

    ev = build(prop, tier, seed, contracts, results, a)
    os.makedirs(os.path.join(VERIF, "evidence"), exist_ok=True)
    path = os.path.join(VERIF, "evidence", f"{prop}.json")
    json.dump(ev, open(path, "w"), indent=1, default=repr)


def do_replay(prop, path):
    from .engine import replay_native

    rec = json.load(open(path))
    contracts = load_contracts(prop)
    c = next((c for c in contracts if c.name == rec["contract"]), None)
    if c is None:
        print(f"replay: contract {rec['contract']} not found")
        return 3
    case = None
    for tier in (rec.get("tier", "quick"), "thorough", "quick"):
        for cid, cs in c.cases(tier):
            if str(cid) == str(rec["case"]):
                case = (cid, cs)
                break
        if case:
            break
    if case is None:
        print("replay: case not found")
        return 3
    if c.kind != "deductive":
        from .engine import Harness

        H = Harness("replay", rng=random.Random(0))
        H.keep_all = False
        H.tier = rec.get("tier", "quick")
        exc = None
        try:
            c.body(H, case[1])
        except BaseException as e:  # noqa
            exc = e
        a = H.agg.get(rec["check"])
        failed = bool(a and a[1])
        print(f"replay {rec['obligation']}: {'FAILS' if failed else 'holds'} natively; witness={a[2] if a else None} exc={exc!r}")
        return 1 if failed else 0
    H, exc = replay_native(c.body, case[1], rec.get("inputs") or {}, rec.get("choices") or {}, tier=rec.get("tier", "quick"))
    st = [s for (n, s, _i) in H.results if n == rec["check"]]
    failed = "violated" in st or (rec["check"] == "no_unexpected_exception" and isinstance(exc, BaseException))
    print(f"replay {rec['obligation']}: inputs={rec.get('inputs')} choices={rec.get('choices')}")
    print(f"  clause {rec['check']}: {'FAILS' if failed else 'holds'} natively" + (f" (raised {exc!r})" if isinstance(exc, BaseException) else ""))
    return 1 if failed else 0


if __name__ == "__main__":
    sys.exit(main())
