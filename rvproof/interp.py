"""Meta-circular symbolic interpreter.

Interprets the AST of the *loaded* function objects (inspect.getsource on the object that
CPython would call) over real Python objects whose scalar leaves may be symbolic.
Statement execution is written as Python generators so that interpreted generator
functions are real, lazy generator objects (usable by contextlib, zip, join, ...).
Exceptions raised by interpreted code are real exceptions propagating through the
interpreter's own stack; engine errors derive from BaseException via EngineError and are
never caught by interpreted handlers.
"""
from __future__ import annotations

import ast
import builtins
import enum
import hashlib
import inspect
import io
import itertools
import linecache
import logging
import operator
import os
import struct
import sys
import textwrap
import types

from . import models
from .models import SymBytes, SymFile
from .sym import (
    EngineError,
    SymBase,
    SymBool,
    SymFloatBase,
    SymInt,
    Unsupported,
    as_int_z,
    ctx,
    is_sym,
    sym_ite,
    sym_not,
)

sys.setrecursionlimit(max(sys.getrecursionlimit(), 40000))

_BUILTINS = builtins.__dict__

REPO_SRC = os.path.realpath(os.environ.get("RV_REPO_SRC") or os.path.join(os.environ.get("RV_REPO", "/repo"), "src", "python")) + os.sep
VERIF_DIR = os.path.realpath(os.path.join(os.path.dirname(__file__), "..")) + os.sep
CONTRACT_DIR = VERIF_DIR + "contracts" + os.sep


class _Missing:
    pass


MISSING = _Missing()


class FuncInfo:
    __slots__ = ("node", "is_gen", "filename", "sha", "lineno", "qualname", "src")


_FUNC_CACHE: dict = {}
SOURCES_SEEN: dict = {}  # qualname -> (file, line, sha256)


def _contains_yield(node):
    for n in ast.walk(node):
        if isinstance(n, (ast.Yield, ast.YieldFrom)):
            return True
    return False


def interpretable(func) -> bool:
    code = getattr(func, "__code__", None)
    if code is None:
        return False
    fn = code.co_filename
    if fn.startswith("<attrs generated"):
        return True
    if fn.startswith("<"):
        return False
    fn = os.path.realpath(fn)
    return fn.startswith(REPO_SRC) or fn.startswith(CONTRACT_DIR)


def func_info(func) -> FuncInfo:
    code = func.__code__
    got = _FUNC_CACHE.get(code)
    if got is not None:
        return got
    try:
        src = inspect.getsource(code)
    except (OSError, TypeError) as e:
        raise Unsupported(f"no source for {func!r}: {e}")
    src = textwrap.dedent(src)
    tree = ast.parse(src)
    node = tree.body[0]
    if isinstance(node, (ast.FunctionDef,)):
        pass
    elif code.co_name == "<lambda>":
        lambdas = [n for n in ast.walk(tree) if isinstance(n, ast.Lambda)]
        if len(lambdas) != 1:
            raise Unsupported("cannot isolate lambda source")
        node = lambdas[0]
    else:
        raise Unsupported(f"unexpected source shape for {func!r}")
    info = FuncInfo()
    info.node = node
    info.is_gen = bool(code.co_flags & inspect.CO_GENERATOR)
    info.filename = code.co_filename
    info.lineno = code.co_firstlineno
    info.sha = hashlib.sha256(src.encode()).hexdigest()
    info.qualname = getattr(func, "__module__", "?") + ":" + getattr(func, "__qualname__", code.co_name)
    info.src = src
    _FUNC_CACHE[code] = info
    SOURCES_SEEN[info.qualname] = (info.filename, info.lineno, info.sha)
    return info


class Frame:
    __slots__ = ("locals", "globals", "cells", "parent", "gdecl", "nldecl", "exc", "klass", "self0", "name")

    def __init__(self, globals_, cells=None, parent=None, name="?"):
        self.locals = {}
        self.globals = globals_
        self.cells = cells or {}
        self.parent = parent
        self.gdecl = set()
        self.nldecl = set()
        self.exc = None
        self.klass = None
        self.self0 = MISSING
        self.name = name


class InterpClosure:
    """A function or lambda created by interpreted code."""

    def __init__(self, interp, node, frame, defaults, kw_defaults, name):
        self.interp = interp
        self.node = node
        self.frame = frame
        self.defaults = defaults
        self.kw_defaults = kw_defaults
        self.__name__ = name
        self.is_gen = not isinstance(node, ast.Lambda) and _contains_yield(node)

    def __call__(self, *args, **kwargs):
        return self.interp.call_closure(self, args, kwargs)

    def __get__(self, obj, objtype=None):
        if obj is None:
            return self
        return types.MethodType(self, obj)


# status values returned by statement execution
class _Return:
    __slots__ = ("value",)

    def __init__(self, value):
        self.value = value


_BREAK = "break"
_CONTINUE = "continue"

_BINOPS = {
    ast.Add: operator.add,
    ast.Sub: operator.sub,
    ast.Mult: operator.mul,
    ast.Div: operator.truediv,
    ast.FloorDiv: operator.floordiv,
    ast.Mod: operator.mod,
    ast.Pow: operator.pow,
    ast.LShift: operator.lshift,
    ast.RShift: operator.rshift,
    ast.BitOr: operator.or_,
    ast.BitXor: operator.xor,
    ast.BitAnd: operator.and_,
    ast.MatMult: operator.matmul,
}
_IBINOPS = {
    ast.Add: operator.iadd,
    ast.Sub: operator.isub,
    ast.Mult: operator.imul,
    ast.Div: operator.itruediv,
    ast.FloorDiv: operator.ifloordiv,
    ast.Mod: operator.imod,
    ast.Pow: operator.ipow,
    ast.LShift: operator.ilshift,
    ast.RShift: operator.irshift,
    ast.BitOr: operator.ior,
    ast.BitXor: operator.ixor,
    ast.BitAnd: operator.iand,
}
_BINOP_DUNDER = {
    ast.Add: ("__add__", "__radd__", "__iadd__"),
    ast.Sub: ("__sub__", "__rsub__", "__isub__"),
    ast.Mult: ("__mul__", "__rmul__", "__imul__"),
    ast.Div: ("__truediv__", "__rtruediv__", "__itruediv__"),
    ast.FloorDiv: ("__floordiv__", "__rfloordiv__", "__ifloordiv__"),
    ast.Mod: ("__mod__", "__rmod__", "__imod__"),
    ast.Pow: ("__pow__", "__rpow__", "__ipow__"),
    ast.LShift: ("__lshift__", "__rlshift__", "__ilshift__"),
    ast.RShift: ("__rshift__", "__rrshift__", "__irshift__"),
    ast.BitOr: ("__or__", "__ror__", "__ior__"),
    ast.BitXor: ("__xor__", "__rxor__", "__ixor__"),
    ast.BitAnd: ("__and__", "__rand__", "__iand__"),
}
_CMPOPS = {
    ast.Eq: operator.eq,
    ast.NotEq: operator.ne,
    ast.Lt: operator.lt,
    ast.LtE: operator.le,
    ast.Gt: operator.gt,
    ast.GtE: operator.ge,
}
_CMP_DUNDER = {
    ast.Eq: "__eq__",
    ast.NotEq: "__ne__",
    ast.Lt: "__lt__",
    ast.LtE: "__le__",
    ast.Gt: "__gt__",
    ast.GtE: "__ge__",
}

# natives that may receive symbolic arguments directly (they only move values around, or
# use ==/</bool on them, which the proxies implement soundly by forking)
_SAFE_NATIVES = {
    len, list, tuple, zip, enumerate, reversed, sorted, any, all, sum, iter, next, repr, str,
    id, dict, set, frozenset, map, filter, callable, format, itertools.chain,
    itertools.chain.from_iterable, print, slice, operator.index,
}
_SAFE_METHOD_OWNERS = (list, dict, set, tuple, frozenset, str)


def _shallow_has_sym(args, kwargs):
    for a in args:
        if isinstance(a, SymBase) or isinstance(a, SymFile):
            return True
        if type(a) in (list, tuple):
            for b in a:
                if isinstance(b, SymBase):
                    return True
    for a in kwargs.values():
        if isinstance(a, SymBase) or isinstance(a, SymFile):
            return True
    return False


class Interp:
    def __init__(self):
        self.native_sym_calls = {}
        self.calls = 0
        self.max_loop = 400000
        self.trace = None  # optional list of interpreted function qualnames
        # ghost observation of locals: {function qualname suffix: callback(frame_locals, lineno)} called
        # after every assignment statement of that function (used for lemma chains; never changes state)
        self.watch = {}
        self.loop_heads = {}  # ghost hooks at the head of every `for` iteration (loop invariants)

    # ===================================================================== calls

    def call(self, fn, *args, **kwargs):
        return self.call_any(fn, args, kwargs)

    def call_any(self, fn, args, kwargs):
        self.calls += 1
        t = type(fn)
        if t is types.FunctionType:
            if interpretable(fn):
                return self.call_function(fn, args, kwargs)
            wrapped = getattr(fn, "__wrapped__", None)
            if (
                wrapped is not None
                and fn.__code__.co_filename.endswith("contextlib.py")
                and fn.__code__.co_name == "inner"
                and isinstance(wrapped, types.FunctionType)
                and interpretable(wrapped)
            ):
                # ContextDecorator.__call__.<locals>.inner: `with self._recreate_cm(): return func(*a, **k)`
                # is itself interpreted so that the decorated /repo function is
                return self.call_function(fn, args, kwargs)
            if (
                wrapped is not None
                and fn.__code__.co_filename.endswith("contextlib.py")
                and fn.__code__.co_name == "helper"
                and isinstance(wrapped, types.FunctionType)
                and bool(wrapped.__code__.co_flags & inspect.CO_GENERATOR)
                and interpretable(wrapped)
            ):
                # @contextmanager: run contextlib natively over the interpreted generator
                import contextlib

                return contextlib._GeneratorContextManager(
                    lambda *a, **k: self.call_function(wrapped, a, k), args, kwargs
                )
            return self.call_native(fn, args, kwargs)
        if t is types.MethodType:
            return self.call_any(fn.__func__, (fn.__self__,) + tuple(args), kwargs)
        if t is InterpClosure:
            return self.call_closure(fn, args, kwargs)
        if isinstance(fn, type):
            return self.construct(fn, args, kwargs)
        model = _MODELS.get(_model_key(fn))
        if model is not None:
            return model(self, *args, **kwargs)
        if t in (types.BuiltinFunctionType, types.BuiltinMethodType, types.MethodWrapperType,
                 types.WrapperDescriptorType, types.MethodDescriptorType, types.ClassMethodDescriptorType):
            return self.call_builtin(fn, args, kwargs)
        if t is staticmethod or t is classmethod:
            return self.call_any(fn.__func__, args, kwargs)
        # callable instance
        call = _type_lookup(t, "__call__")
        if call is not None and isinstance(call, types.FunctionType) and interpretable(call):
            return self.call_function(call, (fn,) + tuple(args), kwargs)
        return self.call_native(fn, args, kwargs)

    def call_native(self, fn, args, kwargs):
        if (getattr(fn, "__module__", None) or "").startswith("rvproof."):
            return fn(*args, **kwargs)  # the engine's own models
        if _shallow_has_sym(args, kwargs):
            ok = fn in _SAFE_NATIVES if _hashable(fn) else False
            if not ok:
                owner = getattr(fn, "__self__", None)
                if isinstance(owner, logging.Logger):
                    return None
                name = getattr(fn, "__qualname__", getattr(fn, "__name__", repr(fn)))
                mod = getattr(fn, "__module__", "")
                if mod and (mod.startswith("logutils") or mod.startswith("logging")):
                    return fn(*args, **kwargs) if mod.startswith("logutils") else None
                raise Unsupported(f"native callable {mod}.{name} called with symbolic arguments")
        owner = getattr(fn, "__self__", None)
        if isinstance(owner, logging.Logger):
            return None
        return fn(*args, **kwargs)

    def call_builtin(self, fn, args, kwargs):
        owner = getattr(fn, "__self__", None)
        name = getattr(fn, "__name__", "")
        if isinstance(owner, logging.Logger):
            return None
        # object.__setattr__/__getattribute__/__delattr__ reached through super(): use the
        # interpreter's own default protocol so that descriptors defined in /repo are interpreted
        if name == "__setattr__" and _is_object_slot(fn, "__setattr__"):
            if owner is not None and not isinstance(owner, type):
                return self.setattr_default(owner, args[0], args[1])
            return self.setattr_default(args[0], args[1], args[2])
        if name == "__getattribute__" and _is_object_slot(fn, "__getattribute__"):
            if owner is not None and not isinstance(owner, type):
                return self.getattr_default(owner, args[0])
            return self.getattr_default(args[0], args[1])
        if isinstance(owner, struct.Struct):
            # precompiled formats: same models as the module-level functions
            if name == "pack":
                return models.pack(owner.format, *args)
            if name == "unpack":
                return models.unpack(owner.format, *args)
            if name == "unpack_from":
                return models.unpack_from(owner.format, *args, **kwargs)
            if name == "pack_into":
                return models.pack_into(owner.format, *args)
        if isinstance(owner, (bytes, bytearray)) and not isinstance(owner, type):
            if name == "join":
                return models.bytes_join(owner, list(args[0]))
            if _shallow_has_sym(args, kwargs):
                # bytes methods with symbolic arguments: go through SymBytes
                return getattr(SymBytes(list(owner)), name)(*args, **kwargs)
        if _shallow_has_sym(args, kwargs):
            safe = (_hashable(fn) and fn in _SAFE_NATIVES) or (
                owner is not None and isinstance(owner, _SAFE_METHOD_OWNERS + (SymBase, SymFile))
            ) or isinstance(owner, (list, dict, set))
            if not safe:
                if isinstance(owner, BaseException):
                    return fn(*args, **kwargs)
                qn = getattr(fn, "__qualname__", name)
                raise Unsupported(f"builtin {qn} called with symbolic arguments")
        return fn(*args, **kwargs)

    # ---------------------------------------------------------------- construct

    def construct(self, cls, args, kwargs):
        model = _MODELS.get(_model_key(cls))
        if model is not None:
            return model(self, *args, **kwargs)
        if issubclass(cls, enum.Enum):
            if len(args) == 1 and not kwargs and is_sym(args[0]):
                return enum_from_sym(cls, args[0])
            return cls(*args, **kwargs)
        if issubclass(cls, BaseException):
            init = _type_lookup(cls, "__init__")
            if not (isinstance(init, types.FunctionType) and interpretable(init)):
                return cls(*args, **kwargs)
        meta_call = _type_lookup(type(cls), "__call__")
        if meta_call is not type.__call__:
            return self.call_native(cls, args, kwargs)
        new = _type_lookup(cls, "__new__")
        init = _type_lookup(cls, "__init__")
        init_interp = isinstance(init, types.FunctionType) and interpretable(init)
        new_f = new.__func__ if isinstance(new, staticmethod) else new
        new_interp = isinstance(new_f, types.FunctionType) and interpretable(new_f)
        if not init_interp and not new_interp:
            return self.call_native(cls, args, kwargs)
        if new_interp:
            obj = self.call_function(new_f, (cls,) + tuple(args), kwargs)
        elif new_f is object.__new__:
            obj = object.__new__(cls)
        else:
            # builtin base (dict/list/...): allocate natively without arguments
            obj = new_f(cls)
        if isinstance(obj, cls):
            if init_interp:
                r = self.call_function(init, (obj,) + tuple(args), kwargs)
                if r is not None:
                    raise TypeError("__init__() should return None")
            elif init is not object.__init__:
                init(obj, *args, **kwargs)
        return obj

    # ---------------------------------------------------------------- interpreted functions

    def bind(self, argsnode, defaults, kw_defaults, args, kwargs, fname):
        """Bind call arguments to parameters (CPython rules)."""
        loc = {}
        pos = [a.arg for a in argsnode.posonlyargs] + [a.arg for a in argsnode.args]
        npos_only = len(argsnode.posonlyargs)
        args = tuple(args)
        kwargs = dict(kwargs)
        n = len(pos)
        for i, name in enumerate(pos):
            if i < len(args):
                loc[name] = args[i]
        if len(args) > n:
            if argsnode.vararg is None:
                raise TypeError(f"{fname}() takes {n} positional arguments but {len(args)} were given")
            loc[argsnode.vararg.arg] = tuple(args[n:])
        elif argsnode.vararg is not None:
            loc[argsnode.vararg.arg] = ()
        kwonly = [a.arg for a in argsnode.kwonlyargs]
        extra = {}
        for k, v in kwargs.items():
            if k in pos[npos_only:] or k in kwonly:
                if k in loc:
                    raise TypeError(f"{fname}() got multiple values for argument '{k}'")
                loc[k] = v
            elif argsnode.kwarg is not None:
                extra[k] = v
            else:
                raise TypeError(f"{fname}() got an unexpected keyword argument '{k}'")
        if argsnode.kwarg is not None:
            loc[argsnode.kwarg.arg] = extra
        nd = len(defaults)
        for i, name in enumerate(pos):
            if name not in loc:
                di = i - (n - nd)
                if di >= 0:
                    loc[name] = defaults[di]
                else:
                    raise TypeError(f"{fname}() missing required positional argument: '{name}'")
        for name in kwonly:
            if name not in loc:
                if kw_defaults and name in kw_defaults:
                    loc[name] = kw_defaults[name]
                else:
                    raise TypeError(f"{fname}() missing required keyword-only argument: '{name}'")
        return loc

    def call_function(self, func, args, kwargs):
        info = func_info(func)
        if self.trace is not None:
            self.trace.append(info.qualname)
        node = info.node
        cells = {}
        if func.__closure__:
            for name, cell in zip(func.__code__.co_freevars, func.__closure__):
                cells[name] = cell
        frame = Frame(func.__globals__, cells, None, info.qualname)
        frame.locals = self.bind(
            node.args, func.__defaults__ or (), func.__kwdefaults__ or {}, args, kwargs, func.__name__
        )
        if "__class__" in cells:
            try:
                frame.klass = cells["__class__"].cell_contents
            except ValueError:
                pass
        if args:
            frame.self0 = args[0]
        if isinstance(node, ast.Lambda):
            return self.eval(node.body, frame)
        if info.is_gen:
            return self._gen_body(node.body, frame)
        return self._run_body(node.body, frame)

    def call_closure(self, clo, args, kwargs):
        node = clo.node
        frame = Frame(clo.frame.globals, None, clo.frame, clo.__name__)
        frame.locals = self.bind(node.args, clo.defaults, clo.kw_defaults, args, kwargs, clo.__name__)
        frame.klass = clo.frame.klass
        if args:
            frame.self0 = args[0]
        if isinstance(node, ast.Lambda):
            return self.eval(node.body, frame)
        if clo.is_gen:
            return self._gen_body(node.body, frame)
        return self._run_body(node.body, frame)

    def _run_body(self, body, frame):
        g = self.exec_block(body, frame)
        try:
            while True:
                next(g)
                raise Unsupported("yield in a non-generator function")
        except StopIteration as s:
            st = s.value
        if isinstance(st, _Return):
            return st.value
        return None

    def _gen_body(self, body, frame):
        st = yield from self.exec_block(body, frame)
        if isinstance(st, _Return):
            return st.value
        return None

    # ===================================================================== statements

    def exec_block(self, stmts, frame):
        for s in stmts:
            m = getattr(self, "x_" + type(s).__name__, None)
            if m is None:
                raise Unsupported(f"statement {type(s).__name__}")
            st = yield from m(s, frame)
            if st is not None:
                return st
        return None

    def x_Pass(self, s, f):
        return None
        yield

    def x_Expr(self, s, f):
        v = s.value
        if isinstance(v, ast.Yield):
            yield (self.eval(v.value, f) if v.value is not None else None)
            return None
        if isinstance(v, ast.YieldFrom):
            yield from self._yield_from(v, f)
            return None
        if isinstance(v, ast.Constant):
            return None
        self.eval(v, f)
        return None

    def _yield_from(self, v, f):
        it = self.eval(v.value, f)
        if isinstance(it, types.GeneratorType):
            r = yield from it
            return r
        for x in self.iterate(it):
            yield x
        return None

    def x_Assign(self, s, f):
        if isinstance(s.value, ast.Yield):
            sent = yield (self.eval(s.value.value, f) if s.value.value is not None else None)
            val = sent
        elif isinstance(s.value, ast.YieldFrom):
            val = yield from self._yield_from(s.value, f)
        else:
            val = self.eval(s.value, f)
        for t in s.targets:
            self.assign(t, val, f)
        if self.watch:
            self._watch(s, f)
        return None

    def _watch(self, s, f):
        for suffix, cb in self.watch.items():
            if f.name.endswith(suffix):
                cb(f.locals, s.lineno)

    def x_AnnAssign(self, s, f):
        if s.value is not None:
            self.assign(s.target, self.eval(s.value, f), f)
        return None
        yield

    def x_AugAssign(self, s, f):
        t = s.target
        rhs_node = s.value
        if isinstance(t, ast.Name):
            cur = self.load_name(t.id, f)
            val = self.binop(type(s.op), cur, self.eval(rhs_node, f), inplace=True)
            self.store_name(t.id, val, f)
        elif isinstance(t, ast.Attribute):
            obj = self.eval(t.value, f)
            cur = self.getattr(obj, t.attr)
            val = self.binop(type(s.op), cur, self.eval(rhs_node, f), inplace=True)
            self.setattr(obj, t.attr, val)
        elif isinstance(t, ast.Subscript):
            obj = self.eval(t.value, f)
            idx = self.eval_index(t.slice, f)
            cur = self.getitem(obj, idx)
            val = self.binop(type(s.op), cur, self.eval(rhs_node, f), inplace=True)
            self.setitem(obj, idx, val)
        else:
            raise Unsupported("augmented assignment target")
        if self.watch:
            self._watch(s, f)
        return None
        yield

    def x_Return(self, s, f):
        return _Return(self.eval(s.value, f) if s.value is not None else None)
        yield

    def x_Break(self, s, f):
        return _BREAK
        yield

    def x_Continue(self, s, f):
        return _CONTINUE
        yield

    def x_Global(self, s, f):
        f.gdecl.update(s.names)
        return None
        yield

    def x_Nonlocal(self, s, f):
        f.nldecl.update(s.names)
        return None
        yield

    def x_Delete(self, s, f):
        for t in s.targets:
            if isinstance(t, ast.Name):
                del f.locals[t.id]
            elif isinstance(t, ast.Attribute):
                self.delattr(self.eval(t.value, f), t.attr)
            elif isinstance(t, ast.Subscript):
                obj = self.eval(t.value, f)
                del obj[self.eval_index(t.slice, f)]
            else:
                raise Unsupported("del target")
        return None
        yield

    def x_Assert(self, s, f):
        if not self.truth(self.eval(s.test, f)):
            if s.msg is not None:
                raise AssertionError(self.eval(s.msg, f))
            raise AssertionError()
        return None
        yield

    def x_If(self, s, f):
        if self.truth(self.eval(s.test, f)):
            st = yield from self.exec_block(s.body, f)
        else:
            st = yield from self.exec_block(s.orelse, f)
        return st

    def x_While(self, s, f):
        n = 0
        while self.truth(self.eval(s.test, f)):
            n += 1
            if n > self.max_loop:
                raise Unsupported("while loop iteration budget exceeded")
            st = yield from self.exec_block(s.body, f)
            if st is _BREAK:
                return None
            if st is _CONTINUE or st is None:
                continue
            return st
        st = yield from self.exec_block(s.orelse, f)
        return st

    def x_For(self, s, f):
        it = self.iterate(self.eval(s.iter, f))
        n = 0
        for item in it:
            n += 1
            if n > self.max_loop:
                raise Unsupported("for loop iteration budget exceeded")
            self.assign(s.target, item, f)
            if self.loop_heads:
                for suffix, cb in self.loop_heads.items():
                    if f.name.endswith(suffix):
                        cb(f.locals, s.lineno)
            st = yield from self.exec_block(s.body, f)
            if st is _BREAK:
                close = getattr(it, "close", None)
                if close is not None:
                    pass  # CPython does not close the iterator on break
                return None
            if st is _CONTINUE or st is None:
                continue
            return st
        st = yield from self.exec_block(s.orelse, f)
        return st

    def x_Raise(self, s, f):
        if s.exc is None:
            if f.exc is None:
                raise RuntimeError("No active exception to reraise")
            raise f.exc
        exc = self.eval(s.exc, f)
        if isinstance(exc, type):
            exc = self.construct(exc, (), {})
        if not isinstance(exc, BaseException):
            raise TypeError("exceptions must derive from BaseException")
        if s.cause is not None:
            cause = self.eval(s.cause, f)
            if isinstance(cause, type):
                cause = cause()
            exc.__cause__ = cause
            exc.__suppress_context__ = True
        elif f.exc is not None and exc is not f.exc and exc.__context__ is None:
            exc.__context__ = f.exc
        raise exc
        yield

    def _try_inner(self, s, f):
        try:
            st = yield from self.exec_block(s.body, f)
        except EngineError:
            raise
        except BaseException as exc:
            handler = None
            for h in s.handlers:
                if h.type is None:
                    if isinstance(exc, GeneratorExit):
                        # bare except catches it in CPython too
                        pass
                    handler = h
                    break
                types_ = self.eval(h.type, f)
                if isinstance(exc, types_):
                    handler = h
                    break
            if handler is None:
                raise
            saved = f.exc
            f.exc = exc
            if handler.name:
                f.locals[handler.name] = exc
            try:
                st = yield from self.exec_block(handler.body, f)
            finally:
                f.exc = saved
                if handler.name:
                    f.locals.pop(handler.name, None)
            return st
        else:
            if st is None:
                st = yield from self.exec_block(s.orelse, f)
            return st

    def x_Try(self, s, f):
        if not s.finalbody:
            st = yield from self._try_inner(s, f)
            return st
        try:
            st = yield from self._try_inner(s, f)
        except EngineError:
            raise
        except BaseException as exc:
            saved = f.exc
            f.exc = exc
            try:
                st2 = yield from self.exec_block(s.finalbody, f)
            finally:
                f.exc = saved
            if st2 is not None:
                return st2
            raise exc
        else:
            st2 = yield from self.exec_block(s.finalbody, f)
            if st2 is not None:
                return st2
            return st

    def x_With(self, s, f):
        st = yield from self._with_items(s, 0, f)
        return st

    def _with_items(self, s, i, f):
        if i == len(s.items):
            st = yield from self.exec_block(s.body, f)
            return st
        item = s.items[i]
        mgr = self.eval(item.context_expr, f)
        tp = type(mgr)
        enter = _type_lookup(tp, "__enter__")
        exit_ = _type_lookup(tp, "__exit__")
        if enter is None or exit_ is None:
            raise TypeError(f"'{tp.__name__}' object does not support the context manager protocol")
        val = self.call_any(enter, (mgr,), {})
        if item.optional_vars is not None:
            self.assign(item.optional_vars, val, f)
        try:
            st = yield from self._with_items(s, i + 1, f)
        except EngineError:
            raise
        except BaseException as exc:
            suppress = self.call_any(exit_, (mgr, type(exc), exc, exc.__traceback__), {})
            if not self.truth(suppress):
                raise
            return None
        else:
            self.call_any(exit_, (mgr, None, None, None), {})
            return st

    def x_FunctionDef(self, s, f):
        if s.decorator_list:
            raise Unsupported("decorated nested function")
        defaults = [self.eval(d, f) for d in s.args.defaults]
        kwd = {
            a.arg: self.eval(d, f)
            for a, d in zip(s.args.kwonlyargs, s.args.kw_defaults)
            if d is not None
        }
        f.locals[s.name] = InterpClosure(self, s, f, defaults, kwd, s.name)
        return None
        yield

    def x_Import(self, s, f):
        for a in s.names:
            mod = __import__(a.name, f.globals, None, (), 0)
            if a.asname:
                for part in a.name.split(".")[1:]:
                    mod = getattr(mod, part)
                self.store_name(a.asname, mod, f)
            else:
                self.store_name(a.name.split(".")[0], mod, f)
        return None
        yield

    def x_ImportFrom(self, s, f):
        mod = __import__(s.module or "", f.globals, None, [a.name for a in s.names], s.level)
        for a in s.names:
            self.store_name(a.asname or a.name, getattr(mod, a.name), f)
        return None
        yield

    # ===================================================================== names / assignment

    def load_name(self, name, f):
        fr = f
        while fr is not None:
            if name in fr.gdecl:
                break
            if name in fr.locals:
                return fr.locals[name]
            if name in fr.cells:
                try:
                    return fr.cells[name].cell_contents
                except ValueError:
                    raise NameError(f"free variable '{name}' referenced before assignment")
            fr = fr.parent
        g = f.globals
        if name in g:
            return g[name]
        if name in _BUILTINS:
            return _BUILTINS[name]
        raise NameError(f"name '{name}' is not defined")

    def store_name(self, name, val, f):
        if name in f.gdecl:
            f.globals[name] = val
            return
        if name in f.nldecl:
            fr = f.parent
            while fr is not None:
                if name in fr.locals:
                    fr.locals[name] = val
                    return
                if name in fr.cells:
                    fr.cells[name].cell_contents = val
                    return
                fr = fr.parent
            raise Unsupported(f"nonlocal {name} not found")
        if name in f.cells and name not in f.locals:
            # a cell variable of a real closure that the function assigns to
            f.cells[name].cell_contents = val
            return
        f.locals[name] = val

    def assign(self, t, val, f):
        if isinstance(t, ast.Name):
            self.store_name(t.id, val, f)
        elif isinstance(t, ast.Attribute):
            self.setattr(self.eval(t.value, f), t.attr, val)
        elif isinstance(t, ast.Subscript):
            self.setitem(self.eval(t.value, f), self.eval_index(t.slice, f), val)
        elif isinstance(t, (ast.Tuple, ast.List)):
            vals = list(self.iterate(val))
            stars = [i for i, e in enumerate(t.elts) if isinstance(e, ast.Starred)]
            if stars:
                si = stars[0]
                after = len(t.elts) - si - 1
                if len(vals) < len(t.elts) - 1:
                    raise ValueError("not enough values to unpack")
                for e, v in zip(t.elts[:si], vals[:si]):
                    self.assign(e, v, f)
                self.assign(t.elts[si].value, vals[si : len(vals) - after], f)
                for e, v in zip(t.elts[si + 1 :], vals[len(vals) - after :]):
                    self.assign(e, v, f)
            else:
                if len(vals) > len(t.elts):
                    raise ValueError(f"too many values to unpack (expected {len(t.elts)})")
                if len(vals) < len(t.elts):
                    raise ValueError(
                        f"not enough values to unpack (expected {len(t.elts)}, got {len(vals)})"
                    )
                for e, v in zip(t.elts, vals):
                    self.assign(e, v, f)
        elif isinstance(t, ast.Starred):
            self.assign(t.value, val, f)
        else:
            raise Unsupported(f"assignment target {type(t).__name__}")

    def iterate(self, obj):
        if isinstance(obj, (list, tuple, dict, str, bytes, range, set, frozenset, types.GeneratorType)):
            return iter(obj)
        it = _type_lookup(type(obj), "__iter__")
        if isinstance(it, types.FunctionType) and interpretable(it):
            return self.call_function(it, (obj,), {})
        return iter(obj)

    # ===================================================================== expressions

    def eval(self, n, f):
        m = getattr(self, "e_" + type(n).__name__, None)
        if m is None:
            raise Unsupported(f"expression {type(n).__name__}")
        return m(n, f)

    def e_Constant(self, n, f):
        return n.value

    def e_Name(self, n, f):
        return self.load_name(n.id, f)

    def e_Tuple(self, n, f):
        return tuple(self._elts(n.elts, f))

    def e_List(self, n, f):
        return self._elts(n.elts, f)

    def e_Set(self, n, f):
        return set(self._elts(n.elts, f))

    def _elts(self, elts, f):
        out = []
        for e in elts:
            if isinstance(e, ast.Starred):
                out.extend(self.iterate(self.eval(e.value, f)))
            else:
                out.append(self.eval(e, f))
        return out

    def e_Dict(self, n, f):
        d = {}
        for k, v in zip(n.keys, n.values):
            if k is None:
                d.update(self.eval(v, f))
            else:
                d[self.eval(k, f)] = self.eval(v, f)
        return d

    def e_Attribute(self, n, f):
        return self.getattr(self.eval(n.value, f), n.attr)

    def e_Subscript(self, n, f):
        return self.getitem(self.eval(n.value, f), self.eval_index(n.slice, f))

    def eval_index(self, s, f):
        if isinstance(s, ast.Slice):
            return slice(
                self.eval(s.lower, f) if s.lower is not None else None,
                self.eval(s.upper, f) if s.upper is not None else None,
                self.eval(s.step, f) if s.step is not None else None,
            )
        return self.eval(s, f)

    e_Slice = eval_index

    def e_Starred(self, n, f):
        raise Unsupported("starred expression outside call/display")

    def e_UnaryOp(self, n, f):
        v = self.eval(n.operand, f)
        op = type(n.op)
        if op is ast.Not:
            if isinstance(v, (SymBool, SymInt)):
                return sym_not(v)
            return not self.truth(v)
        if op is ast.USub:
            return -v
        if op is ast.UAdd:
            return +v
        if op is ast.Invert:
            d = _type_lookup(type(v), "__invert__")
            if isinstance(d, types.FunctionType) and interpretable(d):
                return self.call_function(d, (v,), {})
            return ~v
        raise Unsupported("unary op")

    def e_BinOp(self, n, f):
        return self.binop(type(n.op), self.eval(n.left, f), self.eval(n.right, f))

    def binop(self, op, a, b, inplace=False):
        if not is_sym(a) or not is_sym(b):
            fwd, rev, inp = _BINOP_DUNDER.get(op, (None, None, None))
            ta, tb = type(a), type(b)
            if inplace and inp:
                d = _type_lookup(ta, inp)
                if isinstance(d, types.FunctionType) and interpretable(d):
                    r = self.call_function(d, (a, b), {})
                    if r is not NotImplemented:
                        return r
            da = _type_lookup(ta, fwd) if fwd else None
            db = _type_lookup(tb, rev) if rev else None
            da_i = isinstance(da, types.FunctionType) and interpretable(da)
            db_i = isinstance(db, types.FunctionType) and interpretable(db)
            if da_i or db_i:
                # emulate the binary operator protocol so that /repo dunders are interpreted
                if db is not None and tb is not ta and issubclass(tb, ta) and db is not _type_lookup(ta, rev):
                    r = self.call_any(db, (b, a), {})
                    if r is not NotImplemented:
                        return r
                    db = None
                if da is not None:
                    r = self.call_any(da, (a, b), {})
                    if r is not NotImplemented:
                        return r
                if db is not None and tb is not ta:
                    r = self.call_any(db, (b, a), {})
                    if r is not NotImplemented:
                        return r
                raise TypeError(f"unsupported operand type(s): '{ta.__name__}' and '{tb.__name__}'")
        if isinstance(a, (bytes, bytearray)) and isinstance(b, SymBytes) and op is ast.Add:
            return b.__radd__(a)
        if op is ast.Mod and isinstance(a, (str, bytes)):
            return a % b
        fn = (_IBINOPS if inplace else _BINOPS)[op]
        return fn(a, b)

    def e_BoolOp(self, n, f):
        is_and = isinstance(n.op, ast.And)
        v = None
        for i, e in enumerate(n.values):
            v = self.eval(e, f)
            if i == len(n.values) - 1:
                return v
            t = self.truth(v)
            if is_and and not t:
                return v
            if not is_and and t:
                return v
        return v

    def e_IfExp(self, n, f):
        if self.truth(self.eval(n.test, f)):
            return self.eval(n.body, f)
        return self.eval(n.orelse, f)

    def e_Compare(self, n, f):
        left = self.eval(n.left, f)
        res = True
        for op, rn in zip(n.ops, n.comparators):
            right = self.eval(rn, f)
            r = self.compare(type(op), left, right)
            if len(n.ops) == 1:
                return r
            if not self.truth(r):
                return r
            res = r
            left = right
        return res

    def compare(self, op, a, b):
        if op is ast.Is:
            return a is b
        if op is ast.IsNot:
            return a is not b
        if op is ast.In:
            return self.contains(b, a)
        if op is ast.NotIn:
            r = self.contains(b, a)
            if isinstance(r, (SymBool, SymInt)):
                return sym_not(r)
            return not r
        if not is_sym(a) and not is_sym(b):
            dn = _CMP_DUNDER[op]
            da = _type_lookup(type(a), dn)
            if isinstance(da, types.FunctionType) and interpretable(da):
                r = self.call_function(da, (a, b), {})
                if r is not NotImplemented:
                    return r
        if isinstance(a, (bytes, bytearray)) and isinstance(b, SymBytes):
            if op is ast.Eq:
                return SymBytes.eq(a, b)
            if op is ast.NotEq:
                return sym_not(SymBytes.eq(a, b))
        if op in (ast.Eq, ast.NotEq) and (
            isinstance(a, (list, tuple, dict)) and isinstance(b, (list, tuple, dict))
        ):
            from .sym import sym_eq

            r = sym_eq(a, b)
            return r if op is ast.Eq else (sym_not(r) if is_sym(r) else not r)
        return _CMPOPS[op](a, b)

    def contains(self, container, x):
        from .heap import SymList

        if isinstance(container, SymList):
            return container.sym_contains(x)
        if isinstance(container, range) and isinstance(x, (SymInt, SymBool)):
            xi = x if isinstance(x, SymInt) else x._i()
            st, sp, step = container.start, container.stop, container.step
            if len(container) == 0:
                return False
            last = container[-1]
            lo, hi = (st, last) if step > 0 else (last, st)
            from .sym import sym_and

            return sym_and(xi >= lo, xi <= hi, ((xi - st) % step) == 0 if abs(step) != 1 else True)
        if isinstance(container, (bytes, bytearray)) and is_sym(x):
            return SymBytes(list(container)).__contains__(x)
        d = _type_lookup(type(container), "__contains__")
        if isinstance(d, types.FunctionType) and interpretable(d):
            return self.truth(self.call_function(d, (container, x), {}))
        if isinstance(container, (list, tuple)) and not is_sym(x):
            # list.__contains__ uses identity then ==; == on /repo objects may be a /repo __eq__
            for y in container:
                if y is x:
                    return True
                r = self.compare(ast.Eq, y, x)
                if self.truth(r):
                    return True
            return False
        return x in container

    def e_Call(self, n, f):
        fn_node = n.func
        # zero-argument super()
        if isinstance(fn_node, ast.Name) and fn_node.id == "super" and not n.args and not n.keywords:
            if self.load_name("super", f) is super:
                fr = f
                while fr is not None and fr.klass is None:
                    fr = fr.parent
                if fr is None or fr.self0 is MISSING:
                    raise RuntimeError("super(): no arguments")
                return super(fr.klass, fr.self0)
        fn = self.eval(fn_node, f)
        args = []
        for a in n.args:
            if isinstance(a, ast.Starred):
                args.extend(self.iterate(self.eval(a.value, f)))
            else:
                args.append(self.eval(a, f))
        kwargs = {}
        for k in n.keywords:
            if k.arg is None:
                kwargs.update(self.eval(k.value, f))
            else:
                kwargs[k.arg] = self.eval(k.value, f)
        return self.call_any(fn, args, kwargs)

    def e_Lambda(self, n, f):
        defaults = [self.eval(d, f) for d in n.args.defaults]
        kwd = {
            a.arg: self.eval(d, f)
            for a, d in zip(n.args.kwonlyargs, n.args.kw_defaults)
            if d is not None
        }
        return InterpClosure(self, n, f, defaults, kwd, "<lambda>")

    def e_JoinedStr(self, n, f):
        parts = []
        for v in n.values:
            if isinstance(v, ast.Constant):
                parts.append(v.value)
            else:
                parts.append(self.e_FormattedValue(v, f))
        return "".join(parts)

    def e_FormattedValue(self, n, f):
        v = self.eval(n.value, f)
        if n.conversion == 114:
            v = repr(v)
        elif n.conversion == 115:
            v = str(v)
        elif n.conversion == 97:
            v = ascii(v)
        spec = self.eval(n.format_spec, f) if n.format_spec is not None else ""
        return format(v, spec)

    def e_NamedExpr(self, n, f):
        v = self.eval(n.value, f)
        self.store_name(n.target.id, v, f)
        return v

    # comprehensions ------------------------------------------------------

    def _comp(self, generators, f, emit):
        child = Frame(f.globals, None, f, f.name + ".<comp>")
        child.klass = f.klass
        child.self0 = f.self0
        first = self.eval(generators[0].iter, f)

        def rec(i, it0=None):
            g = generators[i]
            if g.is_async:
                raise Unsupported("async comprehension")
            it = it0 if i == 0 else self.eval(g.iter, child)
            for item in self.iterate(it):
                self.assign(g.target, item, child)
                if all(self.truth(self.eval(c, child)) for c in g.ifs):
                    if i + 1 < len(generators):
                        yield from rec(i + 1)
                    else:
                        yield emit(child)

        return rec(0, first)

    def e_ListComp(self, n, f):
        return list(self._comp(n.generators, f, lambda c: self.eval(n.elt, c)))

    def e_SetComp(self, n, f):
        return set(self._comp(n.generators, f, lambda c: self.eval(n.elt, c)))

    def e_GeneratorExp(self, n, f):
        return self._comp(n.generators, f, lambda c: self.eval(n.elt, c))

    def e_DictComp(self, n, f):
        return dict(
            self._comp(n.generators, f, lambda c: (self.eval(n.key, c), self.eval(n.value, c)))
        )

    # ===================================================================== object protocol

    def truth(self, v):
        if v is True or v is False:
            return v
        if v is None:
            return False
        if isinstance(v, (SymBool, SymInt)):
            return bool(v)  # forks through the path context
        if isinstance(v, SymBase):
            return bool(v)
        t = type(v)
        if t in (int, str, list, tuple, dict, bytes, set, float):
            return bool(v)
        d = _type_lookup(t, "__bool__")
        if isinstance(d, types.FunctionType) and interpretable(d):
            return self.truth(self.call_function(d, (v,), {}))
        if d is None:
            d = _type_lookup(t, "__len__")
            if isinstance(d, types.FunctionType) and interpretable(d):
                return self.truth(self.call_function(d, (v,), {}) != 0)
        return bool(v)

    def getattr(self, obj, name):
        if isinstance(obj, (SymBase, SymFile)):
            try:
                return getattr(obj, name)
            except AttributeError:
                conc = _concrete_type_of(obj)
                if conc is not None and hasattr(conc, name):
                    # the real value would have this attribute, the model does not: outside the subset
                    raise Unsupported(f"attribute {name!r} of a symbolic {conc.__name__} is not modelled")
                raise
        if isinstance(obj, (SymBase, SymFile, type, types.ModuleType, super)) or type(obj) in (
            int, str, bytes, list, dict, tuple, set, float, bool, types.FunctionType,
            types.MethodType, InterpClosure, type(None),
        ):
            return getattr(obj, name)
        tp = type(obj)
        ga = _type_lookup(tp, "__getattribute__")
        # builtin bases (dict, list, BaseException, ...) carry their own slot wrapper for the same
        # generic C implementation as object.__getattribute__
        if ga is not object.__getattribute__ and type(ga) is not types.WrapperDescriptorType:
            if isinstance(ga, types.FunctionType) and interpretable(ga):
                return self.call_function(ga, (obj, name), {})
            return getattr(obj, name)
        return self.getattr_default(obj, name)

    def getattr_default(self, obj, name):
        tp = type(obj)
        attr = _type_lookup(tp, name, MISSING)
        if attr is not MISSING:
            at = type(attr)
            if _type_lookup(at, "__set__") is not None or _type_lookup(at, "__delete__") is not None:
                return self._descr_get(attr, obj, tp)
        d = getattr(obj, "__dict__", None)
        if d is not None and name in d:
            return d[name]
        if attr is not MISSING:
            at = type(attr)
            if at is types.FunctionType or at is InterpClosure:
                return types.MethodType(attr, obj)
            if _type_lookup(at, "__get__") is not None:
                return self._descr_get(attr, obj, tp)
            return attr
        if name == "__class__":
            return tp
        if name == "__dict__" and d is not None:
            return d
        ga = _type_lookup(tp, "__getattr__")
        if ga is not None:
            if isinstance(ga, types.FunctionType) and interpretable(ga):
                return self.call_function(ga, (obj, name), {})
            return ga(obj, name)
        raise AttributeError(f"'{tp.__name__}' object has no attribute '{name}'")

    def _descr_get(self, attr, obj, tp):
        at = type(attr)
        if at is property:
            fget = attr.fget
            if fget is None:
                raise AttributeError("unreadable attribute")
            return self.call_any(fget, (obj,), {})
        g = _type_lookup(at, "__get__")
        if isinstance(g, types.FunctionType) and interpretable(g):
            return self.call_function(g, (attr, obj, tp), {})
        return attr.__get__(obj, tp)

    def setattr(self, obj, name, val):
        if isinstance(obj, (type, types.ModuleType)):
            setattr(obj, name, val)
            return
        tp = type(obj)
        sa = _type_lookup(tp, "__setattr__")
        if sa is not object.__setattr__ and type(sa) is not types.WrapperDescriptorType:
            if isinstance(sa, types.FunctionType) and interpretable(sa):
                self.call_function(sa, (obj, name, val), {})
                return
            setattr(obj, name, val)
            return
        self.setattr_default(obj, name, val)

    def setattr_default(self, obj, name, val):
        tp = type(obj)
        attr = _type_lookup(tp, name, MISSING)
        if attr is not MISSING:
            at = type(attr)
            s = _type_lookup(at, "__set__")
            if s is not None:
                if at is property:
                    if attr.fset is None:
                        raise AttributeError(f"property '{name}' of '{tp.__name__}' object has no setter")
                    self.call_any(attr.fset, (obj, val), {})
                    return
                if isinstance(s, types.FunctionType) and interpretable(s):
                    self.call_function(s, (attr, obj, val), {})
                    return
                attr.__set__(obj, val)
                return
            if _type_lookup(at, "__delete__") is not None:
                raise AttributeError("can't set attribute")
        d = getattr(obj, "__dict__", None)
        if d is None:
            raise AttributeError(f"'{tp.__name__}' object has no attribute '{name}'")
        d[name] = val

    def delattr(self, obj, name):
        delattr(obj, name)

    def getitem(self, obj, idx):
        t = type(obj)
        if t in (list, tuple) and isinstance(idx, (SymInt, SymBool)):
            return select_seq(obj, idx)
        if t in (bytes, bytearray) and isinstance(idx, (SymInt, SymBool)):
            return select_seq(list(obj), idx)
        if t is dict and isinstance(idx, (SymInt, SymBool)):
            return select_dict(obj, idx)
        d = _type_lookup(t, "__getitem__")
        if isinstance(d, types.FunctionType) and interpretable(d):
            return self.call_function(d, (obj, idx), {})
        if isinstance(idx, slice) and (is_sym(idx.start) or is_sym(idx.stop) or is_sym(idx.step)):
            idx = slice(*[x.__index__() if is_sym(x) else x for x in (idx.start, idx.stop, idx.step)])
        return obj[idx]

    def setitem(self, obj, idx, val):
        t = type(obj)
        d = _type_lookup(t, "__setitem__")
        if isinstance(d, types.FunctionType) and interpretable(d):
            self.call_function(d, (obj, idx, val), {})
            return
        obj[idx] = val


# ------------------------------------------------------------------------- helpers


def _concrete_type_of(obj):
    from .heap import SymList
    from .strings import SymStr

    for sym_t, conc in ((SymBool, bool), (SymInt, int), (models.SymByteArray, bytearray), (SymBytes, bytes),
                        (SymFloatBase, float), (SymStr, str), (SymList, list), (SymFile, io.BytesIO)):
        if isinstance(obj, sym_t):
            return conc
    return None


def _hashable(x):
    try:
        hash(x)
        return True
    except Exception:
        return False


def _type_lookup(tp, name, default=None):
    for k in tp.__mro__:
        d = k.__dict__
        if name in d:
            return d[name]
    return default


def _is_object_slot(fn, name):
    objc = getattr(fn, "__objclass__", None)
    if objc is object:
        return True
    q = getattr(fn, "__qualname__", "")
    return q == f"object.{name}"


def select_seq(seq, idx):
    """seq[idx] for a symbolic integer index (IndexError outcome included)."""
    n = len(seq)
    iz = idx if isinstance(idx, SymInt) else idx._i()
    if not (((iz >= -n) & (iz < n)) if n else False):
        raise IndexError("list index out of range")
    if iz < 0:
        iz = iz + n
    if n <= 64 and not all(isinstance(v, (int, bool, SymInt, SymBool)) for v in seq):
        # heterogeneous content: complete case split over the index
        from .sym import ctx as _c

        k = _c().choose_feasible([as_int_z(iz) == i for i in range(n)], "index")
        return seq[k]
    if not all(isinstance(v, (int, bool, SymInt, SymBool)) for v in seq):
        raise Unsupported("symbolic index into a long non-integer sequence")
    if n >= 3 and all(type(v) is int for v in seq):
        d = seq[1] - seq[0]
        if all(seq[i + 1] - seq[i] == d for i in range(n - 1)):
            return seq[0] + d * iz  # arithmetic progression: exact closed form
    res = seq[n - 1]
    for i in range(n - 2, -1, -1):
        res = sym_ite(iz == i, seq[i], res)
    return res


def select_dict(d, key):
    from .sym import ctx as _c

    keys = [k for k in d if isinstance(k, int)]
    conds = [as_int_z(key) == int(k) for k in keys]
    import z3

    conds.append(z3.And(*[z3.Not(c) for c in conds]) if conds else z3.BoolVal(True))
    k = _c().choose_feasible(conds, "dictkey")
    if k == len(keys):
        raise KeyError(key)
    return d[keys[k]]


def enum_from_sym(cls, v):
    """Enum(value) for a symbolic value: complete case split over the members."""
    import z3

    from .sym import ctx as _c

    if isinstance(v, SymBytes) or isinstance(v, SymFloatBase):
        raise Unsupported("enum lookup by symbolic non-integer")
    vz = as_int_z(v)
    members = []
    seen = set()
    for m in cls:  # canonical members only (aliases resolve to them)
        if isinstance(m.value, int) and m.value not in seen:
            seen.add(m.value)
            members.append(m)
    conds = [vz == int(m.value) for m in members]
    conds.append(z3.And(*[z3.Not(c) for c in conds]) if conds else z3.BoolVal(True))
    k = _c().choose_feasible(conds, "enum")
    if k == len(members):
        if hasattr(cls, "_missing_"):
            pass
        raise ValueError(f"{v!r} is not a valid {cls.__qualname__}")
    return members[k]


# ------------------------------------------------------------------------- builtin models

_MODELS = {}


def _model_key(fn):
    try:
        hash(fn)
    except Exception:
        return None
    return fn


def model(*targets):
    def deco(f):
        for t in targets:
            _MODELS[t] = f
        return f

    return deco


@model(isinstance)
def _m_isinstance(I, obj, cls):
    if isinstance(obj, SymBase) or isinstance(obj, SymFile):
        if isinstance(cls, tuple):
            return any(_m_isinstance(I, obj, c) for c in cls)
        if isinstance(obj, SymBool):
            return cls in (bool, int, object) or _abc_number(cls)
        if isinstance(obj, SymInt):
            return cls in (int, object) or _abc_number(cls)
        if isinstance(obj, models.SymByteArray):
            return cls in (bytearray, object)
        if isinstance(obj, SymBytes):
            return cls in (bytes, object)
        if isinstance(obj, SymFloatBase):
            return cls in (float, object) or _abc_number(cls)
        if isinstance(obj, SymFile):
            return cls in (io.BytesIO, io.IOBase, io.BufferedIOBase, object, SymFile)
        from .heap import SymList

        if isinstance(obj, SymList):
            return cls in (list, object)
        from .strings import SymStr

        if isinstance(obj, SymStr):
            return cls in (str, object)
        return False
    return isinstance(obj, cls)


def _abc_number(cls):
    import numbers

    return cls in (numbers.Number, numbers.Integral, numbers.Real, numbers.Rational, numbers.Complex)


@model(type)
def _m_type(I, *args, **kw):
    if len(args) == 1 and not kw:
        o = args[0]
        if isinstance(o, SymBool):
            return bool
        if isinstance(o, SymInt):
            return int
        if isinstance(o, models.SymByteArray):
            return bytearray
        if isinstance(o, SymBytes):
            return bytes
        if isinstance(o, SymFloatBase):
            return float
        if isinstance(o, SymFile):
            return io.BytesIO
        return type(o)
    return type(*args, **kw)


@model(int)
def _m_int(I, *args, **kw):
    if len(args) == 1 and not kw:
        v = args[0]
        if isinstance(v, SymInt):
            return v
        if isinstance(v, SymBool):
            return v._i()
        if isinstance(v, SymFloatBase):
            return v.to_int()
        if is_sym(v):
            raise Unsupported(f"int() of {type(v).__name__}")
        d = _type_lookup(type(v), "__int__")
        if isinstance(d, types.FunctionType) and interpretable(d):
            r = I.call_function(d, (v,), {})
            return r
        d = _type_lookup(type(v), "__index__")
        if isinstance(d, types.FunctionType) and interpretable(d):
            return I.call_function(d, (v,), {})
    return int(*args, **kw)


@model(bool)
def _m_bool(I, *args):
    if not args:
        return False
    v = args[0]
    if isinstance(v, SymBool):
        return v
    if isinstance(v, SymInt):
        return v != 0
    return I.truth(v)


@model(float)
def _m_float(I, *args):
    if args and is_sym(args[0]):
        from . import floats

        return floats.to_float(args[0])
    return float(*args)


@model(abs)
def _m_abs(I, v):
    return abs(v)


def _anyall(I, is_any, it):
    """any()/all() over a side-effect-free sequence (bytes, list, tuple) of ints/bools, some of them
    symbolic: one combined truth value (the caller branches on it once) instead of one fork per
    element.  Short-circuiting is unobservable for such sequences."""
    from .sym import sym_and, sym_or

    if isinstance(it, (SymBytes, models.SymByteArray)):
        seq = list(it.items)
    elif isinstance(it, (list, tuple, bytes, bytearray)):
        seq = list(it)
    else:
        return None
    if not any(is_sym(x) for x in seq) or not all(isinstance(x, (bool, int, SymInt, SymBool)) for x in seq):
        return None
    return (sym_or if is_any else sym_and)(*[x if isinstance(x, (bool, SymBool)) else (x != 0) for x in seq])


@model(any)
def _m_any(I, it):
    r = _anyall(I, True, it)
    return any(I.iterate(it)) if r is None else r


@model(all)
def _m_all(I, it):
    r = _anyall(I, False, it)
    return all(I.iterate(it)) if r is None else r


def _minmax(I, is_min, args, kw):
    if kw or len(args) < 2 or not any(is_sym(a) for a in args):
        if len(args) == 1 and not kw:
            seq = list(I.iterate(args[0]))
            if any(is_sym(a) for a in seq) and len(seq) >= 1:
                return _minmax(I, is_min, seq, {}) if len(seq) > 1 else seq[0]
        return (min if is_min else max)(*args, **kw)
    if any(isinstance(a, (float, SymFloatBase)) for a in args):
        from . import floats

        return floats.minmax(is_min, args)
    res = args[0]
    for a in args[1:]:
        # CPython keeps the first of equal items; for ints the value is what matters
        res = sym_ite((a < res) if is_min else (a > res), a, res)
    return res


@model(min)
def _m_min(I, *args, **kw):
    return _minmax(I, True, args, kw)


@model(max)
def _m_max(I, *args, **kw):
    return _minmax(I, False, args, kw)


@model(bytes)
def _m_bytes(I, *args, **kw):
    if len(args) == 1 and not kw:
        a = args[0]
        if isinstance(a, models.SymByteArray):
            return models.mkbytes(list(a.items))
        if isinstance(a, SymBytes):
            return a
        if isinstance(a, (bytes, bytearray, int, str)):
            return bytes(a)
        return models.bytes_from_iterable(I.iterate(a))
    return bytes(*args, **kw)


@model(len)
def _m_len(I, o):
    from .heap import SymList

    if isinstance(o, SymList):
        return o.sym_len()
    d = _type_lookup(type(o), "__len__")
    if isinstance(d, types.FunctionType) and interpretable(d):
        return I.call_function(d, (o,), {})
    return len(o)


@model(range)
def _m_range(I, *args):
    return range(*[a.__index__() if is_sym(a) else a for a in args])


@model(getattr)
def _m_getattr(I, obj, name, *default):
    try:
        return I.getattr(obj, name)
    except AttributeError:
        if default:
            return default[0]
        raise


@model(setattr)
def _m_setattr(I, obj, name, val):
    I.setattr(obj, name, val)


@model(hasattr)
def _m_hasattr(I, obj, name):
    try:
        I.getattr(obj, name)
        return True
    except AttributeError:
        return False


@model(delattr)
def _m_delattr(I, obj, name):
    I.delattr(obj, name)


@model(struct.pack)
def _m_pack(I, fmt, *args):
    return models.pack(fmt, *args)


@model(struct.unpack)
def _m_unpack(I, fmt, data):
    return models.unpack(fmt, data)


@model(struct.unpack_from)
def _m_unpack_from(I, fmt, data, offset=0):
    return models.unpack_from(fmt, data, offset)


@model(struct.pack_into)
def _m_pack_into(I, fmt, buf, offset, *args):
    return models.pack_into(fmt, buf, offset, *args)


@model(bytearray)
def _m_bytearray(I, *args, **kw):
    if kw:
        return bytearray(*args, **kw)
    return models.make_bytearray(*args)


@model(int.from_bytes)
def _m_from_bytes(I, data, byteorder="big", *, signed=False):
    items = models.byte_items(data) if not isinstance(data, (list, tuple)) else list(data)
    return models._unpack_int(list(items), len(items), signed, byteorder == "little") if items else 0


@model(struct.calcsize)
def _m_calcsize(I, fmt):
    return models.calcsize(fmt)


@model(io.BytesIO)
def _m_bytesio(I, initial=b""):
    return SymFile(initial)


@model(hash)
def _m_hash(I, o):
    d = _type_lookup(type(o), "__hash__")
    if isinstance(d, types.FunctionType) and interpretable(d):
        return I.call_function(d, (o,), {})
    return hash(o)


@model(divmod)
def _m_divmod(I, a, b):
    return (a // b, a % b)


@model(print)
def _m_print(I, *a, **k):
    return None


@model(str)
def _m_str(I, *args, **kw):
    if len(args) == 1 and not kw and not is_sym(args[0]):
        o = args[0]
        d = _type_lookup(type(o), "__str__")
        if isinstance(d, types.FunctionType) and interpretable(d):
            return I.call_function(d, (o,), {})
    return str(*args, **kw)


@model(list)
def _m_list(I, *args):
    if args:
        return list(I.iterate(args[0]))
    return []


@model(tuple)
def _m_tuple(I, *args):
    if args:
        return tuple(I.iterate(args[0]))
    return ()
