"""IEEE-754 binary64 model over exact rationals (model F2 of DESIGN.md, sharpened).

A SymFloat carries a z3 Real term that denotes the *exact* value of the double.  For an
operation a∘b the exact real result r is formed; then

* if r is structurally dyadic (r·2^d integral for a tracked exponent d) and the path condition
  proves |r|·2^d <= 2^53, r is representable and the operation is exact (no rounding);
* if r simplifies to a rational numeral, the correctly rounded double is computed exactly with
  Python's own float arithmetic on the operands (CPython == IEEE-754 RNE on this platform);
* otherwise the result is a fresh real q constrained by facts true of round-to-nearest:
    (A1) monotone w.r.t. every other rounded result on the path,
    (A2) sign preservation, and q == r whenever r is one of the path's exact integers,
    (A3) |q - r| <= |r|·2^-53 + 2^-1075.
  Any subset of true facts is sound; it can only make proofs fail, never succeed wrongly.

int(x) truncates toward zero.  min/max of mixed int/float operands is value-exact.
Overflow to infinity is excluded by requiring |r| <= 2^200 (else Unsupported).
"""
from __future__ import annotations

import math
from fractions import Fraction

import z3

from . import sym
from .sym import (
    SymBool,
    SymFloatBase,
    SymInt,
    Unsupported,
    _mkbool,
    _mkint,
    as_int_z,
    ctx,
)

_TWO53 = 2**53
_EPS = z3.RealVal(Fraction(1, 2**53))
_TINY = z3.RealVal(Fraction(1, 2**1075))


def _frac_of_float(x: float) -> Fraction:
    if math.isinf(x) or math.isnan(x):
        raise Unsupported("non-finite float")
    return Fraction(x)


def _dyadic_exp(fr: Fraction):
    d = fr.denominator
    if d & (d - 1):
        return None
    return d.bit_length() - 1


def _is_pow2(n: int):
    return n > 0 and n & (n - 1) == 0


class SymFloat(SymFloatBase):
    __slots__ = ("r", "d")

    def __init__(self, r, d):
        self.r = r
        self.d = d  # r * 2^d is an integer (structurally), or None

    def __repr__(self):
        return "<symfloat>"

    __str__ = __repr__

    def to_int(self):
        c = ctx()
        memo = c.packcache.setdefault("trunc_memo", {})
        rsimp = z3.simplify(self.r)
        rid = rsimp.get_id()
        hit = memo.get(rid)
        if hit is not None:
            return _mkint(hit[1])  # truncation is a function of the value
        k = z3.Int(c.fresh_name("trunc"))
        memo[rid] = (rsimp, k)  # keeps the term alive, so the id is not reused
        c.add(z3.If(self.r >= 0,
                    z3.And(z3.ToReal(k) <= self.r, self.r < z3.ToReal(k) + 1),
                    z3.And(z3.ToReal(k) - 1 < self.r, self.r <= z3.ToReal(k))))
        return _mkint(k)

    def __bool__(self):
        return ctx().branch(self.r != 0)

    def __neg__(self):
        return SymFloat(-self.r, self.d)

    def __pos__(self):
        return self

    def __abs__(self):
        return SymFloat(z3.If(self.r >= 0, self.r, -self.r), self.d)

    def __hash__(self):
        raise Unsupported("hash of symbolic float")

    def __int__(self):
        return self.to_int().__index__() if isinstance(self.to_int(), SymInt) else self.to_int()

    def __float__(self):
        raise Unsupported("concretizing a symbolic float")


def _lift(x):
    """-> (real term, dyadic exponent or None, is_concrete, python value)"""
    if isinstance(x, SymFloat):
        return x.r, x.d, False, None
    if isinstance(x, bool):
        return z3.RealVal(int(x)), 0, True, int(x)
    if isinstance(x, int):
        return z3.RealVal(int(x)), 0, True, int(x)
    if isinstance(x, float):
        fr = _frac_of_float(x)
        return z3.RealVal(fr), _dyadic_exp(fr), True, x
    if isinstance(x, (SymInt, SymBool)):
        z = as_int_z(x)
        return z3.ToReal(z), 0, False, None
    raise Unsupported(f"float operand {type(x).__name__}")


def _proves(z):
    r, _ = ctx()._check(z3.Not(z))
    return r == z3.unsat


def _to_double_operand_ok(x):
    """An int operand is converted to double first: exact iff |n| <= 2^53."""
    if isinstance(x, (SymInt, SymBool)):
        z = as_int_z(x)
        if not _proves(z3.And(z <= _TWO53, z >= -_TWO53)):
            raise Unsupported("int operand of a float operation not provably within 2^53")
    elif isinstance(x, int) and abs(x) > _TWO53:
        raise Unsupported("int operand of a float operation exceeds 2^53")


def _round(r, d):
    """Model of RN(r)."""
    c = ctx()
    rs = z3.simplify(r)
    if z3.is_rational_value(rs):
        fr = Fraction(rs.numerator_as_long(), rs.denominator_as_long())
        # correctly rounded conversion of an exact rational: int/int true division in CPython
        # is correctly rounded (longobject.c long_true_divide)
        val = fr.numerator / fr.denominator
        fr2 = Fraction(val)
        return SymFloat(z3.RealVal(fr2), _dyadic_exp(fr2))
    if d is not None and d <= 1000:
        lim = z3.RealVal(Fraction(_TWO53, 2**d) if d >= 0 else _TWO53 * 2 ** (-d))
        if _proves(z3.And(rs <= lim, rs >= -lim)):
            return SymFloat(rs, d)
    if not _proves(z3.And(rs <= 2**200, rs >= -(2**200))):
        raise Unsupported("float result not provably finite")
    memo = c.packcache.setdefault("rn_memo", {})
    hit = memo.get(rs.get_id())
    if hit is not None:
        return SymFloat(hit[1], None)  # RN is a function: the same exact value rounds to the same double
    q = z3.Real(c.fresh_name("rn"))
    memo[rs.get_id()] = (rs, q)
    absr = z3.If(rs >= 0, rs, -rs)
    c.add(z3.And(q - rs <= absr * _EPS + _TINY, rs - q <= absr * _EPS + _TINY))
    c.add(z3.Implies(rs >= 0, q >= 0))
    c.add(z3.Implies(rs <= 0, q <= 0))
    # (exactness on integers - RN is the identity on |n| <= 2^53 - is a true fact that is deliberately
    # NOT asserted: IsInt over the division terms made the C20 queries 30x slower; leaving it out only
    # loses precision, never soundness)
    apps = c.packcache.setdefault("rn_apps", [])
    for (r0, q0) in apps:
        c.add(z3.Implies(rs <= r0, q <= q0))
        c.add(z3.Implies(rs >= r0, q >= q0))
    apps.append((rs, q))
    return SymFloat(q, None)


def binop(op, a, b):
    _to_double_operand_ok(a)
    _to_double_operand_ok(b)
    ar, ad, ac, av = _lift(a)
    br, bd, bc, bv = _lift(b)
    int_a = isinstance(a, (int, SymInt, SymBool)) and not isinstance(a, float)
    int_b = isinstance(b, (int, SymInt, SymBool)) and not isinstance(b, float)
    if op == "add":
        d = max(ad, bd) if ad is not None and bd is not None else None
        return _round(ar + br, d)
    if op == "sub":
        d = max(ad, bd) if ad is not None and bd is not None else None
        return _round(ar - br, d)
    if op == "mul":
        d = ad + bd if ad is not None and bd is not None else None
        return _round(ar * br, d)
    if op == "div":
        if bc:
            if bv == 0:
                raise ZeroDivisionError("float division by zero" if not (int_a and int_b) else "division by zero")
            fr = Fraction(bv)
            d = None
            if ad is not None and fr > 0 and fr.denominator == 1 and _is_pow2(fr.numerator):
                d = ad + fr.numerator.bit_length() - 1
            elif ad is not None and fr > 0 and fr.numerator == 1 and _is_pow2(fr.denominator):
                d = max(0, ad - (fr.denominator.bit_length() - 1))
            return _round(ar / br, d)
        if ctx().branch(br == 0):
            raise ZeroDivisionError("float division by zero" if not (int_a and int_b) else "division by zero")
        return _round(ar / br, None)
    if op == "floordiv":
        if bc and float(bv) == bv and bv > 0 and _is_pow2(int(bv)) and int(bv) == bv:
            q = _round(ar / br, (ad + int(bv).bit_length() - 1) if ad is not None else None)
            if q.d is None:
                raise Unsupported("float floor division with inexact quotient")
            k = z3.Int(ctx().fresh_name("floor"))
            ctx().add(z3.And(z3.ToReal(k) <= q.r, q.r < z3.ToReal(k) + 1))
            return SymFloat(z3.ToReal(k), 0)
        raise Unsupported("float floor division by a non power of two")
    raise Unsupported(f"float operation {op}")


def cmp(a, b, f):
    ar = _lift(a)[0]
    br = _lift(b)[0]
    return _mkbool(f(ar, br))


def _cmp_method(f):
    def m(self, o):
        if not isinstance(o, (int, float, SymInt, SymBool, SymFloat)):
            return NotImplemented
        return cmp(self, o, f)

    return m


SymFloat.__lt__ = _cmp_method(lambda a, b: a < b)
SymFloat.__le__ = _cmp_method(lambda a, b: a <= b)
SymFloat.__gt__ = _cmp_method(lambda a, b: a > b)
SymFloat.__ge__ = _cmp_method(lambda a, b: a >= b)


def _eq(self, o):
    if not isinstance(o, (int, float, SymInt, SymBool, SymFloat)):
        return False
    return cmp(self, o, lambda a, b: a == b)


def _ne(self, o):
    if not isinstance(o, (int, float, SymInt, SymBool, SymFloat)):
        return True
    return cmp(self, o, lambda a, b: a != b)


SymFloat.__eq__ = _eq
SymFloat.__ne__ = _ne


def _arith(op, reflected=False):
    def m(self, o):
        if not isinstance(o, (int, float, SymInt, SymBool, SymFloat)):
            return NotImplemented
        return binop(op, o, self) if reflected else binop(op, self, o)

    return m


for _op, _n in (("add", "add"), ("sub", "sub"), ("mul", "mul"), ("div", "truediv"), ("floordiv", "floordiv")):
    setattr(SymFloat, f"__{_n}__", _arith(_op))
    setattr(SymFloat, f"__r{_n}__", _arith(_op, True))


def to_float(x):
    if isinstance(x, (SymFloat, SymF32)):
        return x
    _to_double_operand_ok(x)
    r, d, _, _ = _lift(x)
    return SymFloat(r, d)


def minmax(is_min, args):
    res = args[0]
    for a in args[1:]:
        rr, rd = _lift(res)[0], _lift(res)[1]
        ar, ad = _lift(a)[0], _lift(a)[1]
        c = (ar < rr) if is_min else (ar > rr)
        d = max(rd, ad) if rd is not None and ad is not None else None
        res = SymFloat(z3.simplify(z3.If(c, ar, rr)), d)
    return res


class SymF32(SymFloatBase):
    """An opaque binary32 value identified by its bit pattern (4 byte terms, little-endian).

    Library axiom (struct 'f', trusted, differentially tested in selftest): for every non-NaN binary32 pattern b,
    unpack('<f', b) is a Python float x with pack('<f', x) == b, and float(x) is x.  No arithmetic or ordering
    is defined on SymF32 (Unsupported), so the only facts a proof can use are 'the bytes travel unchanged'."""

    __slots__ = ("bits",)

    def __init__(self, bits):
        self.bits = list(bits)

    def __repr__(self):
        return "<symf32>"

    __str__ = __repr__


def pack_f32(v, little):
    if isinstance(v, SymF32):
        return list(v.bits) if little else list(reversed(v.bits))
    raise Unsupported("struct 'f' with a symbolic value that is not a binary32 pattern")


def unpack_f32(bs, little):
    bs = list(bs)
    if len(bs) != 4:
        raise Unsupported("struct 'f' on a slice that is not 4 bytes")
    return SymF32(bs if little else list(reversed(bs)))


class _Impl:
    binop = staticmethod(binop)
    cmp = staticmethod(cmp)


sym.set_float_impl(_Impl)
