"""Exact translation of bounded integer queries to 64-bit bit-vectors.

Every integer leaf has declared bounds (asserted in the path condition when it is created).
An interval analysis over each term proves that no intermediate value leaves [-2^62, 2^62];
under that side condition 64-bit two's complement arithmetic coincides with mathematical
integer arithmetic, so the QF_BV query is equisatisfiable with the integer query.  If any
term is outside the supported fragment or the interval check fails, NotApplicable is raised
and the caller stays with linear integer arithmetic.
"""
from __future__ import annotations

import z3

W = 64
LIM = 2**62


class NotApplicable(Exception):
    pass


class BVTranslator:
    def __init__(self):
        self.memo = {}  # ast id -> (bv/bool term, interval or None)
        self.keep = []
        self.bounds = {}  # leaf name -> (lo, hi)
        self.side = []  # range constraints for leaves (bv form)
        self.vars = {}

    def set_bounds(self, name, lo, hi):
        self.bounds[name] = (lo, hi)

    def tr(self, e):
        k = e.get_id()
        got = self.memo.get(k)
        if got is not None:
            return got
        r = self._tr(e)
        self.memo[k] = r
        self.keep.append(e)
        return r

    def _chk(self, lo, hi):
        if lo < -LIM or hi > LIM:
            raise NotApplicable("interval exceeds 2^62")
        return (lo, hi)

    def _tr(self, e):
        if z3.is_int_value(e):
            v = e.as_long()
            return z3.BitVecVal(v, W), self._chk(v, v)
        if z3.is_true(e):
            return z3.BoolVal(True), None
        if z3.is_false(e):
            return z3.BoolVal(False), None
        if not z3.is_app(e):
            raise NotApplicable("non-application")
        d = e.decl()
        kind = d.kind()
        n = e.num_args()
        if kind == z3.Z3_OP_UNINTERPRETED and n == 0:
            name = d.name()
            if z3.is_int(e):
                b = self.bounds.get(name)
                if b is None or b[0] is None or b[1] is None:
                    raise NotApplicable(f"unbounded integer {name}")
                v = z3.BitVec(name, W)
                self.vars[name] = v
                self.side.append(z3.And(v >= z3.BitVecVal(b[0], W), v <= z3.BitVecVal(b[1], W)))
                return v, self._chk(b[0], b[1])
            if z3.is_bool(e):
                return e, None
            raise NotApplicable("sort")
        args = [self.tr(e.arg(i)) for i in range(n)]
        if kind == z3.Z3_OP_ADD:
            t = args[0][0]
            lo, hi = args[0][1]
            for a, (l2, h2) in args[1:]:
                t = t + a
                lo, hi = lo + l2, hi + h2
                self._chk(lo, hi)
            return t, self._chk(lo, hi)
        if kind == z3.Z3_OP_SUB:
            t = args[0][0]
            lo, hi = args[0][1]
            for a, (l2, h2) in args[1:]:
                t = t - a
                lo, hi = lo - h2, hi - l2
                self._chk(lo, hi)
            return t, self._chk(lo, hi)
        if kind == z3.Z3_OP_UMINUS:
            a, (l, h) = args[0]
            return -a, self._chk(-h, -l)
        if kind == z3.Z3_OP_MUL:
            t = args[0][0]
            lo, hi = args[0][1]
            for a, (l2, h2) in args[1:]:
                t = t * a
                ps = [lo * l2, lo * h2, hi * l2, hi * h2]
                lo, hi = min(ps), max(ps)
                self._chk(lo, hi)
            return t, self._chk(lo, hi)
        if kind in (z3.Z3_OP_IDIV, z3.Z3_OP_MOD):
            (a, (al, ah)), (b, (bl, bh)) = args
            if bl <= 0:
                raise NotApplicable("divisor not provably positive")
            if bl == bh and bl & (bl - 1) == 0:
                # power of two: arithmetic shift / mask are floor div / mod in two's complement
                k = bl.bit_length() - 1
                if kind == z3.Z3_OP_MOD:
                    if al >= 0 and ah < bl:
                        return a, (al, ah)
                    return a & z3.BitVecVal(bl - 1, W), self._chk(0, bl - 1)
                return a >> k, self._chk(al // bl, ah // bl)
            # floor division / modulo for a positive divisor, any sign of the dividend
            r = z3.SRem(a, b)
            r = z3.If(r < 0, r + b, r)
            if kind == z3.Z3_OP_MOD:
                if al >= 0 and ah < bl:
                    return a, (al, ah)
                return r, self._chk(0, bh - 1)
            q = (a - r) / b  # exact signed division
            qs = [al // bl, al // bh, ah // bl, ah // bh]
            return q, self._chk(min(qs), max(qs))
        if kind == z3.Z3_OP_ITE:
            c, x, y = args
            if x[1] is None:  # boolean ite
                return z3.If(c[0], x[0], y[0]), None
            return z3.If(c[0], x[0], y[0]), (min(x[1][0], y[1][0]), max(x[1][1], y[1][1]))
        if kind == z3.Z3_OP_LE:
            return args[0][0] <= args[1][0], None
        if kind == z3.Z3_OP_LT:
            return args[0][0] < args[1][0], None
        if kind == z3.Z3_OP_GE:
            return args[0][0] >= args[1][0], None
        if kind == z3.Z3_OP_GT:
            return args[0][0] > args[1][0], None
        if kind == z3.Z3_OP_EQ:
            return args[0][0] == args[1][0], None
        if kind == z3.Z3_OP_DISTINCT:
            return z3.Distinct(*[a[0] for a in args]), None
        if kind == z3.Z3_OP_AND:
            return z3.And(*[a[0] for a in args]), None
        if kind == z3.Z3_OP_OR:
            return z3.Or(*[a[0] for a in args]), None
        if kind == z3.Z3_OP_NOT:
            return z3.Not(args[0][0]), None
        if kind == z3.Z3_OP_IMPLIES:
            return z3.Implies(args[0][0], args[1][0]), None
        if kind == z3.Z3_OP_XOR:
            return z3.Xor(args[0][0], args[1][0]), None
        raise NotApplicable(f"operator {d.name()}")

    def tr_bool(self, e):
        t, iv = self.tr(e)
        if iv is not None:
            raise NotApplicable("integer where a formula is expected")
        return t


_DM = {}


def has_divmod(e):
    """Does the term contain integer div/mod (memoized on AST id)?"""
    k = e.get_id()
    r = _DM.get(k)
    if r is not None:
        return r
    res = False
    if z3.is_app(e):
        kind = e.decl().kind()
        if kind in (z3.Z3_OP_IDIV, z3.Z3_OP_MOD):
            res = True
        else:
            for i in range(e.num_args()):
                if has_divmod(e.arg(i)):
                    res = True
                    break
    if len(_DM) > 200000:
        _DM.clear()
    _DM[k] = res
    return res


class BVModel:
    """Adapter: evaluates integer terms in a bit-vector model."""

    def __init__(self, tr, model):
        self.tr = tr
        self.model = model

    def eval(self, e, model_completion=True):
        t, iv = self.tr.tr(e)
        v = self.model.eval(t, model_completion=True)
        if iv is None:
            return v
        return z3.IntVal(v.as_signed_long())
