"""Library models: the trusted base of the engine (DESIGN.md section 2.5).

* SymBytes: immutable byte string of concrete length whose bytes may be symbolic.
* struct.pack / unpack / unpack_from / calcsize for the codes < > = B b H h I i L l Q q x s (+ counts).
* SymFile: io.BytesIO over SymBytes.
Each model is differential-tested against CPython on concrete inputs (rvproof.selfcheck).
"""
from __future__ import annotations

import io
import struct as _struct

import z3

from .sym import (
    SymBase,
    SymBool,
    SymInt,
    Unsupported,
    _mkbool,
    _mkint,
    as_int_z,
    ctx,
    is_sym,
    sym_and,
)

# --------------------------------------------------------------------------- SymBytes


def mkbytes(items):
    """bytes if every item is a concrete int, else SymBytes."""
    items = list(items)
    if all(isinstance(b, int) and not isinstance(b, bool) for b in items):
        return bytes(items)
    out = []
    for b in items:
        if isinstance(b, bool):
            b = int(b)
        if isinstance(b, SymBool):
            b = b._i()
        if not isinstance(b, (int, SymInt)):
            raise TypeError(f"'{type(b).__name__}' object cannot be interpreted as an integer")
        out.append(b)
    return SymBytes(out)


def byte_items(b):
    if isinstance(b, SymBytes):
        return b.items
    if isinstance(b, (bytes, bytearray)):
        return list(b)
    raise TypeError(f"a bytes-like object is required, not '{type(b).__name__}'")


def bytes_from_iterable(it):
    """Model of bytes(iterable): every element must be in range(256)."""
    items = []
    for v in it:
        if isinstance(v, SymBool):
            v = v._i()
        if isinstance(v, SymInt):
            if not (sym_and(v >= 0, v <= 255)):
                raise ValueError("bytes must be in range(0, 256)")
        elif isinstance(v, int):
            if not 0 <= v <= 255:
                raise ValueError("bytes must be in range(0, 256)")
            v = int(v)
        else:
            raise TypeError(f"'{type(v).__name__}' object cannot be interpreted as an integer")
        items.append(v)
    return mkbytes(items)


class SymBytes(SymBase):
    __slots__ = ("items",)

    def __init__(self, items):
        self.items = items

    def __repr__(self):
        return f"<symbytes len={len(self.items)}>"

    def __len__(self):
        return len(self.items)

    def __iter__(self):
        return iter(self.items)

    def __bool__(self):
        return len(self.items) > 0

    def __hash__(self):
        raise Unsupported("hash of symbolic bytes")

    def __getitem__(self, i):
        if isinstance(i, slice):
            return mkbytes(self.items[i])
        return self.items[i]

    def __add__(self, o):
        if not isinstance(o, (bytes, bytearray, SymBytes)):
            return NotImplemented
        return mkbytes(self.items + byte_items(o))

    def __radd__(self, o):
        if not isinstance(o, (bytes, bytearray, SymBytes)):
            return NotImplemented
        return mkbytes(byte_items(o) + self.items)

    def __mul__(self, n):
        return mkbytes(self.items * n)

    @staticmethod
    def eq(a, b):
        if not isinstance(a, (bytes, bytearray, SymBytes)) or not isinstance(
            b, (bytes, bytearray, SymBytes)
        ):
            return False
        ai, bi = byte_items(a), byte_items(b)
        if len(ai) != len(bi):
            return False
        return sym_and(*[x == y for x, y in zip(ai, bi)])

    def __eq__(self, o):
        return SymBytes.eq(self, o)

    def __ne__(self, o):
        from .sym import sym_not

        return sym_not(SymBytes.eq(self, o))

    def __contains__(self, x):
        if isinstance(x, (bytes, bytearray, SymBytes)):
            return self.find(x) != -1
        for b in self.items:
            if b == x:  # forks per byte when symbolic
                return True
        return False

    def find(self, sub, start=0, end=None):
        items = self.items[start:end]
        if isinstance(sub, (int, SymInt)):
            for i, b in enumerate(items):
                if b == sub:
                    return i + start
            return -1
        si = byte_items(sub)
        n = len(si)
        for i in range(0, len(items) - n + 1):
            if sym_and(*[items[i + k] == si[k] for k in range(n)]):
                return i + start
        return -1

    def index(self, sub, *a):
        r = self.find(sub, *a)
        if r == -1:
            raise ValueError("subsection not found")
        return r

    def startswith(self, prefix):
        pi = byte_items(prefix)
        if len(pi) > len(self.items):
            return False
        return bool(sym_and(*[a == b for a, b in zip(self.items, pi)]))

    def ljust(self, width, fill=b" "):
        f = byte_items(fill)
        if len(f) != 1:
            raise TypeError("ljust() argument 2 must be a byte string of length 1")
        n = len(self.items)
        if width <= n:
            return self
        return mkbytes(self.items + f * (width - n))

    def rstrip(self, chars=None):
        if chars is None:
            chars = b" \t\n\r\x0b\x0c"
        cs = byte_items(chars)
        items = list(self.items)
        while items:
            last = items[-1]
            hit = False
            for c in cs:
                if last == c:
                    hit = True
                    break
            if not hit:
                break
            items.pop()
        return mkbytes(items)

    def decode(self, encoding="utf-8", errors="strict"):
        from .symstr import decode_utf8

        return decode_utf8(self, encoding, errors)

    def hex(self):
        return "<symhex>"


class SymByteArray(SymBytes):
    """bytearray whose content may be symbolic (concrete length at any time)."""

    __slots__ = ()

    def __repr__(self):
        return f"<symbytearray len={len(self.items)}>"

    def __getitem__(self, i):
        if isinstance(i, slice):
            return SymByteArray(list(self.items[i]))
        return self.items[i]

    def __setitem__(self, i, v):
        if isinstance(i, slice):
            self.items[i] = byte_items(v) if isinstance(v, (bytes, bytearray, SymBytes)) else list(v)
        else:
            self.items[i] = v

    def __iadd__(self, o):
        self.items.extend(byte_items(o))
        return self

    def __add__(self, o):
        return SymByteArray(self.items + byte_items(o))

    def extend(self, o):
        self.items.extend(byte_items(o) if isinstance(o, (bytes, bytearray, SymBytes)) else list(o))

    def append(self, v):
        self.items.append(v)

    def ljust(self, width, fill=b" "):
        return SymByteArray(list(byte_items(SymBytes.ljust(self, width, fill))))

    def rstrip(self, chars=None):
        return SymByteArray(list(byte_items(SymBytes.rstrip(self, chars))))


def make_bytearray(*args):
    # interpreted code always gets the model object: a real bytearray could not take symbolic
    # bytes written into it later (struct.pack_into, slice assignment)
    if not args:
        return SymByteArray([])
    a = args[0]
    if isinstance(a, SymBytes):
        return SymByteArray(list(a.items))
    if isinstance(a, (bytes, bytearray, int, str)):
        return SymByteArray(list(bytearray(*args)))
    return SymByteArray(byte_items(bytes_from_iterable(list(a))))


def pack_into(fmt, buf, offset, *args):
    data = byte_items(pack(fmt, *args))
    if is_sym(offset):
        offset = offset.__index__()
    if offset < 0:
        offset += len(buf)
    if offset + len(data) > len(buf) or offset < 0:
        raise _struct.error(f"pack_into requires a buffer of at least {offset + len(data)} bytes")
    if isinstance(buf, bytearray) and not all(isinstance(b, int) for b in data):
        raise Unsupported("struct.pack_into of symbolic values into a concrete bytearray")
    buf[offset:offset + len(data)] = mkbytes(data) if isinstance(buf, bytearray) else data
    return None


def bytes_join(sep, parts):
    sep_i = byte_items(sep)
    out = []
    first = True
    for p in parts:
        if not first:
            out.extend(sep_i)
        first = False
        out.extend(byte_items(p))
    return mkbytes(out)


# --------------------------------------------------------------------------- struct

_CODES = {
    # code: (size, signed)
    "B": (1, False),
    "b": (1, True),
    "H": (2, False),
    "h": (2, True),
    "I": (4, False),
    "i": (4, True),
    "L": (4, False),
    "l": (4, True),
    "Q": (8, False),
    "q": (8, True),
    "?": (1, False),
}


def parse_format(fmt):
    """-> (little_endian, [(code, count)])   standard sizes only (a byte-order prefix, or only
    1-byte codes, is required so that native alignment never enters)."""
    if isinstance(fmt, bytes):
        fmt = fmt.decode()
    if not isinstance(fmt, str):
        raise Unsupported("symbolic struct format")
    order = "@"
    body = fmt
    if fmt[:1] in "<>=!@":
        order, body = fmt[0], fmt[1:]
    items = []
    num = ""
    for ch in body:
        if ch.isdigit():
            num += ch
            continue
        if ch.isspace():
            continue
        cnt = int(num) if num else 1
        num = ""
        if ch in _CODES or ch in "xsf":
            items.append((ch, cnt))
        else:
            raise Unsupported(f"struct code {ch!r} not modelled")
    if order == "@":
        if any(_CODES.get(c, (1,))[0] != 1 and c not in "xs" for c, _ in items) or any(
            c == "f" for c, _ in items
        ):
            raise Unsupported(f"native-alignment struct format {fmt!r} with multi-byte codes")
        little = True
    else:
        little = order in "<="  # '=' is native order: x86-64 little endian (trusted)
    return little, items


def calcsize(fmt):
    little, items = parse_format(fmt)
    n = 0
    for code, cnt in items:
        if code in "xs":
            n += cnt
        elif code == "f":
            n += 4 * cnt
        else:
            n += _CODES[code][0] * cnt
    return n


def _pack_int(v, size, signed, little, code):
    bits = 8 * size
    lo, hi = (-(1 << (bits - 1)), (1 << (bits - 1)) - 1) if signed else (0, (1 << bits) - 1)
    if isinstance(v, SymBool):
        v = v._i()
    if isinstance(v, SymInt):
        if not sym_and(v >= lo, v <= hi):
            raise _struct.error(f"'{code}' format requires {lo} <= number <= {hi}")
        c = ctx()
        u = v.z
        if signed:
            u = z3.simplify(z3.If(v.z < 0, v.z + (1 << bits), v.z))
        bs = []
        for i in range(size):
            t = (u / z3.IntVal(1 << (8 * i))) if i else u
            bs.append(SymInt(t % 256))
        key = tuple(b.z.get_id() for b in bs)
        c.packcache[("le", key)] = u
        c.packcache[("keepz", key)] = bs
        return bs if little else bs[::-1]
    if isinstance(v, bool):
        v = int(v)
    if not isinstance(v, int):
        if hasattr(type(v), "__index__") and not is_sym(v):
            v = v.__index__()
        else:
            raise _struct.error("required argument is not an integer")
    if not lo <= v <= hi:
        raise _struct.error(f"'{code}' format requires {lo} <= number <= {hi}")
    return list(int(v).to_bytes(size, "little" if little else "big", signed=signed))


def pack(fmt, *args):
    from .symfloat import pack_f32

    little, items = parse_format(fmt)
    need = sum(1 if c == "s" else (0 if c == "x" else n) for c, n in items)
    if need != len(args):
        raise _struct.error(f"pack expected {need} items for packing (got {len(args)})")
    out = []
    ai = 0
    for code, cnt in items:
        if code == "x":
            out.extend([0] * cnt)
        elif code == "s":
            data = byte_items(args[ai])
            ai += 1
            data = data[:cnt] + [0] * max(0, cnt - len(data))
            out.extend(data)
        elif code == "f":
            for _ in range(cnt):
                out.extend(pack_f32(args[ai], little))
                ai += 1
        else:
            size, signed = _CODES[code]
            for _ in range(cnt):
                out.extend(_pack_int(args[ai], size, signed, little, code))
                ai += 1
    return mkbytes(out)


def _unpack_int(bs, size, signed, little):
    bits = 8 * size
    if not little:
        bs = bs[::-1]
    if all(isinstance(b, int) for b in bs):
        return int.from_bytes(bytes(bs), "little", signed=signed)
    u = None
    if all(isinstance(b, SymInt) for b in bs):
        key = tuple(b.z.get_id() for b in bs)
        u = ctx().packcache.get(("le", key))
    if u is None:
        u = z3.Sum([as_int_z(b) * z3.IntVal(1 << (8 * i)) for i, b in enumerate(bs)])
    if signed:
        u = z3.If(u >= (1 << (bits - 1)), u - (1 << bits), u)
    return _mkint(u)


def unpack(fmt, data):
    return unpack_from(fmt, data, 0, exact=True)


def unpack_from(fmt, data, offset=0, exact=False):
    from .symfloat import unpack_f32

    little, items = parse_format(fmt)
    size = calcsize(fmt)
    bs = byte_items(data)
    if exact:
        if len(bs) != size:
            raise _struct.error(f"unpack requires a buffer of {size} bytes")
    else:
        if offset < 0:
            offset += len(bs)
        if len(bs) - offset < size:
            raise _struct.error(
                f"unpack_from requires a buffer of at least {size + offset} bytes for "
                f"unpacking {size} bytes at offset {offset} (actual buffer size is {len(bs)})"
            )
    pos = offset
    out = []
    for code, cnt in items:
        if code == "x":
            pos += cnt
        elif code == "s":
            out.append(mkbytes(bs[pos : pos + cnt]))
            pos += cnt
        elif code == "f":
            for _ in range(cnt):
                out.append(unpack_f32(bs[pos : pos + 4], little))
                pos += 4
        else:
            sz, signed = _CODES[code]
            for _ in range(cnt):
                v = _unpack_int(bs[pos : pos + sz], sz, signed, little)
                if code == "?":
                    v = v != 0
                out.append(v)
                pos += sz
    return tuple(out)


# --------------------------------------------------------------------------- BytesIO


class SymFile:
    """io.BytesIO whose content may hold symbolic bytes (concrete length and position)."""

    def __init__(self, initial=b""):
        self.buf = list(byte_items(initial))
        self.pos = 0
        self.closed = False

    def _chk(self):
        if self.closed:
            raise ValueError("I/O operation on closed file.")

    def write(self, data):
        self._chk()
        items = byte_items(data)
        n = len(items)
        if self.pos > len(self.buf):
            self.buf.extend([0] * (self.pos - len(self.buf)))
        self.buf[self.pos : self.pos + n] = items
        self.pos += n
        return n

    def read(self, size=-1):
        self._chk()
        if size is None or size < 0:
            size = max(0, len(self.buf) - self.pos)
        out = self.buf[self.pos : self.pos + size]
        self.pos += len(out)
        return mkbytes(out)

    def seek(self, pos, whence=0):
        self._chk()
        if is_sym(pos):
            pos = pos.__index__()
        if whence == 0:
            if pos < 0:
                raise ValueError(f"negative seek value {pos}")
            self.pos = pos
        elif whence == 1:
            self.pos = max(0, self.pos + pos)
        elif whence == 2:
            self.pos = max(0, len(self.buf) + pos)
        else:
            raise ValueError(f"invalid whence ({whence}, should be 0, 1 or 2)")
        return self.pos

    def tell(self):
        self._chk()
        return self.pos

    def getvalue(self):
        self._chk()
        return mkbytes(self.buf)

    def close(self):
        self.closed = True

    def __enter__(self):
        self._chk()
        return self

    def __exit__(self, *exc):
        self.close()
        return None

    def readable(self):
        return True

    def writable(self):
        return True

    def seekable(self):
        return True


def make_bytesio(initial=b""):
    return SymFile(initial)
