#!/bin/sh
DIR="$(cd "$(dirname "$0")/.." && pwd)"
PYTHONDONTWRITEBYTECODE=1 PYTHONPATH="$DIR/.deps:$DIR:/repo/src/python" /venv/bin/python "$DIR/tools/gen_manifest.py" && \
PYTHONPATH="$DIR/.deps" /venv/bin/python -c "
import json, jsonschema
jsonschema.validate(json.load(open('$DIR/MANIFEST.json')), json.load(open('/root/.vp/MANIFEST.schema.json'))); print('manifest valid')"
