#!/bin/sh
# verify_seed.sh <seed dir with patch.diff + demo.py>  : confirms in a scratch worktree that
#  (1) the patch applies, (2) the pinned test suite still passes, (3) demo.py fails with it and passes without.
set -u
SEED="$1"
WT=/tmp/wt_verify_$$
git -C /repo worktree add -q --detach "$WT" HEAD || exit 9
cd "$WT"
export PYTHONPATH="$WT/src/python" PYTHONDONTWRITEBYTECODE=1
ok=1
mkdir -p "$WT/_seed/x" && cp "$SEED"/* "$WT/_seed/x/" && SEED="$WT/_seed/x"
/venv/bin/python "$SEED/demo.py" >/dev/null 2>&1; clean_rc=$?
git apply "$SEED/patch.diff" || { echo "PATCH DOES NOT APPLY"; ok=0; }
if [ $ok = 1 ]; then
  tests=$(/venv/bin/python -m pytest -q -p no:cacheprovider --timeout=900 --continue-on-collection-errors 2>&1 | tail -1)
  /venv/bin/python "$SEED/demo.py" >/tmp/demo_out_$$ 2>&1; patched_rc=$?
  echo "tests: $tests"
  echo "demo clean rc=$clean_rc patched rc=$patched_rc : $(tail -1 /tmp/demo_out_$$ | cut -c1-200)"
  case "$tests" in *"170 passed"*) ;; *) ok=0;; esac
  [ "$clean_rc" = 0 ] || ok=0
  [ "$patched_rc" != 0 ] || ok=0
fi
cd /; git -C /repo worktree remove --force "$WT"; rm -f /tmp/demo_out_$$
[ $ok = 1 ] && echo "SEED OK" || echo "SEED REJECTED"
