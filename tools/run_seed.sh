#!/bin/sh
# run_seed.sh <patch.diff> <prop> [<prop>...] : applies the change to a scratch worktree of /repo (so that
# /repo itself - which background runs may be reading - stays untouched), runs the quick checks, removes it.
V="$(cd "$(dirname "$0")/.." && pwd)"
PATCH="$1"; shift
WT=/tmp/wt_runseed_$$
git -C /repo worktree add -q --detach "$WT" HEAD || exit 9
git -C "$WT" apply "$PATCH" || { git -C /repo worktree remove --force "$WT"; exit 9; }
for p in "$@"; do
  out=$(cd "$V" && RV_REPO="$WT" ./check "$p" --tier ${TIER:-quick} --no-evidence 2>&1); rc=$?
  echo "$p rc=$rc $(echo "$out" | grep -c '^VIOLATION') violations; $(echo "$out" | grep -m2 '^VIOLATION\|^UNDECIDED\|^CHECKER' | cut -c1-220 | tr '\n' ' ')"
done
git -C /repo worktree remove --force "$WT"
