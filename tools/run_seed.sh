#!/bin/sh
# run_seed.sh <patch.diff> <prop> [<prop>...] : applies the change to /repo, runs the quick checks, reverts.
PATCH="$1"; shift
cd /repo && git diff --quiet || { echo "/repo is dirty"; exit 9; }
git -C /repo apply "$PATCH" || exit 9
for p in "$@"; do
  out=$(cd /verif && ./check "$p" --tier ${TIER:-quick} --no-evidence 2>&1); rc=$?
  echo "$p rc=$rc $(echo "$out" | grep -c '^VIOLATION') violations; $(echo "$out" | grep -m2 '^VIOLATION\|^UNDECIDED\|^CHECKER' | cut -c1-220 | tr '\n' ' ')"
done
git -C /repo checkout -- . ; git -C /repo status --short | head -3
