#!/bin/sh
# Negative test: seeded/harmless_refactors.diff is a bundle of semantics-preserving edits of /repo
# (to_bytes instead of pack, chained comparison, divmod, precompiled struct.Struct, merged writes,
# renamed locals, helper extraction, f-string, branch order).  Every check must still exit 0.
V="$(cd "$(dirname "$0")/.." && pwd)"; cd "$V"
WT=/tmp/wt_refactor_$$
git -C /repo worktree add -q --detach "$WT" HEAD || exit 9
git -C "$WT" apply $V/seeded/harmless_refactors.diff || { echo "refactor patch does not apply"; git -C /repo worktree remove --force "$WT"; exit 9; }
bad=0
for p in ${@:-C01 C02 C03 C04 C05 C06 C07 C08 C09 C10 C11 C12 C13 C14 C15 C16 C17 C18 C19 C20}; do
  out=$(RV_REPO="$WT" ./check "$p" --tier quick --no-evidence 2>&1); rc=$?
  echo "$p rc=$rc $(echo "$out" | tail -1 | cut -c1-160)"
  [ $rc = 0 ] || bad=1
done
git -C /repo worktree remove --force "$WT"
exit $bad
