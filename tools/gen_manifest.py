#!/usr/bin/env python3
"""Regenerates MANIFEST.json from the contract modules that exist (run with ./tools/gen_manifest.sh)."""
import importlib
import json
import os
import sys

VERIF = os.path.realpath(os.path.join(os.path.dirname(__file__), ".."))
sys.path.insert(0, VERIF)
sys.path.insert(0, "/repo/src/python")
import logging

logging.disable(logging.CRITICAL)
import rv.api  # noqa

props = [json.loads(l) for l in open(os.path.join(VERIF, "properties.jsonl"))]
NA_REASONS = {}
na_path = os.path.join(VERIF, "tools", "not_applicable.json")
if os.path.exists(na_path):
    NA_REASONS = json.load(open(na_path))

checks = []
na = []
for p in props:
    pid = p["id"]
    path = os.path.join(VERIF, "contracts", pid.lower() + ".py")
    if pid in NA_REASONS or not os.path.exists(path):
        na.append({"property_id": pid, "reason": NA_REASONS.get(pid, "check not built yet (build in progress)")})
        continue
    mod = importlib.import_module(f"contracts.{pid.lower()}")
    level = getattr(mod, "LEVEL", "other")
    text = getattr(mod, "LEVEL_TEXT", None) or (
        "Post-conditions taken from the property statement are attached (sidecar) to the real /repo functions; "
        "verification conditions are generated from the AST of the loaded functions by symbolic execution over all "
        "feasible paths with symbolic inputs and discharged by z3 (cvc5 on unknown) for all values at once; "
        "refutations are replayed natively on the real code. What is quantified symbolically are VALUES; structural shapes (numbers of modules, "
        "patterns, cells, envelope points, which chunks are present) are enumerated per case, and any part that is only evaluated natively is "
        "listed under bounded_parts in the evidence file and is not counted among the discharged obligations.")
    checks.append({
        "property_id": pid,
        "quick_cmd": f"./check {pid} --tier quick",
        "thorough_cmd": f"./check {pid} --tier thorough",
        "evidence_file": f"/verif/evidence/{pid}.json",
        "replay_cmd_template": f"./check {pid} --replay {{path}}",
        "engine": "rvproof",
        "level_claimed": {"category": level, "text": text, "design_ref": f"DESIGN.md section 3 ({pid}) and section 7"},
        "level_note": getattr(mod, "LEVEL_NOTE", None) or (
            "Trusted: the interpreter's re-implementation of CPython semantics (differentially tested every run), z3/cvc5, "
            "the library models of struct/bytes/BytesIO, the float model where floats occur; assumptions listed in the evidence file. "
            + " ".join(getattr(mod, "ASSUMPTIONS", []))[:600]),
        "technique": getattr(mod, "TECHNIQUE", "contract-based deductive verification: sidecar contracts on the real functions, VCs from the AST by symbolic execution, discharged by z3/cvc5"),
    })

manifest = {
    "version": 1,
    "setup_cmd": "./setup.sh",
    "hooks": {
        "guard": "RV_VERIF",
        "enable": "no source hooks are needed: contracts are sidecar files under /verif/contracts and the checks import rv from /repo's working tree; RV_VERIF is not read by /repo",
        "baseline_off_cmd": "cd /repo && /venv/bin/python -m pytest -ra -q -p no:cacheprovider --timeout=900 --continue-on-collection-errors",
        "source_commits": [],
        "add_only": True,
    },
    "engines": [{
        "name": "rvproof",
        "path": "/verif/rvproof",
        "serves_properties": [c["property_id"] for c in checks],
        "kind_free_text": "meta-circular symbolic executor over the AST of the loaded rv functions (inspect.getsource of the function objects CPython would call), sidecar contracts in /verif/contracts, obligations discharged by z3 5.1 (LIA, exact 64-bit BV translation with interval side conditions, rational float model), cvc5 / z3 CLI on unknown; native replay of every counter-model",
    }],
    "checks": checks,
    "notes": "See DESIGN.md. Genuine defects repaired in /repo are 'fix:' commits listed in KNOWN_FINDINGS.jsonl; unrepaired ones are known findings there.",
    "not_applicable": na,
}
json.dump(manifest, open(os.path.join(VERIF, "MANIFEST.json"), "w"), indent=1)
print(f"{len(checks)} checks, {len(na)} not_applicable")
