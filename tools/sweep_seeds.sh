#!/bin/sh
# sweep_seeds.sh [seed ...] : runs every seeded change against the quick checks of its property in a
# scratch worktree (so /repo itself is untouched) and writes seeded/RESULTS.json
V="$(cd "$(dirname "$0")/.." && pwd)"; cd "$V"
WT=/tmp/wt_sweep_$$
git -C /repo worktree add -q --detach "$WT" HEAD || exit 9
OUT=/tmp/seed_results_$$.txt; : > $OUT
seeds="$@"; [ -n "$seeds" ] || seeds=$(ls seeded | grep '^C')
for n in $seeds; do
  p=$(echo "$n" | cut -c1-3)
  git -C "$WT" apply "$V/seeded/$n/patch.diff" || { echo "$n APPLY-FAILED" >> $OUT; continue; }
  out=$(RV_REPO="$WT" ./check "$p" --tier quick --no-evidence 2>&1); rc=$?
  nv=$(echo "$out" | grep -c '^VIOLATION')
  obs=$(echo "$out" | grep '^VIOLATION' | sed 's/.*replays\/[^/]*\///; s/\.json//' | head -4 | tr '\n' ' ')
  echo "$n rc=$rc violations=$nv $obs" >> $OUT
  git -C "$WT" checkout -q -- . ; git -C "$WT" clean -fdq
done
git -C /repo worktree remove --force "$WT"
cat $OUT
python3 - "$OUT" "$V" <<'PY'
import sys, json, os
res = {}
V = sys.argv[2]
p = f"{V}/seeded/RESULTS.json"
if os.path.exists(p):
    res = json.load(open(p))
for line in open(sys.argv[1]):
    parts = line.split()
    if len(parts) < 2: continue
    n = parts[0]
    if parts[1] == "APPLY-FAILED":
        res[n] = {"detected": None, "note": "patch did not apply"}; continue
    rc = int(parts[1].split("=")[1]); nv = int(parts[2].split("=")[1])
    res[n] = {"detected": rc == 1 and nv > 0, "exit_code": rc, "violations": nv, "first_obligations": parts[3:]}
json.dump(res, open(p, "w"), indent=1, sort_keys=True)
for n, r in res.items():
    mp = f"{V}/seeded/{n}/meta.json"
    if os.path.exists(mp):
        m = json.load(open(mp)); m["detected_by"] = r; json.dump(m, open(mp, "w"), indent=1)
PY
rm -f $OUT
