#!/bin/sh
# Negative test, one patch per property: seeded/refactors/Cxx/patch.diff is a behaviour-preserving
# refactoring (written by a sub-agent that saw only the property text) of the code property Cxx depends on.
# Each is applied to a scratch worktree; the pinned suite must still pass and the check of that property
# (and of every other property listed after the patch name: "Cxx:Cyy,Czz") must still exit 0.
#   usage: check_refactor_seeds.sh [Cxx ...]
V="$(cd "$(dirname "$0")/.." && pwd)"; cd "$V"
WT=/tmp/wt_refseed_$$
git -C /repo worktree add -q --detach "$WT" HEAD || exit 9
bad=0
names="$@"; [ -n "$names" ] || names=$(ls seeded/refactors 2>/dev/null)
for n in $names; do
  f="$V/seeded/refactors/$n/patch.diff"
  [ -f "$f" ] || continue
  git -C "$WT" apply "$f" || { echo "$n APPLY-FAILED"; bad=1; continue; }
  tests=$(cd "$WT" && PYTHONPATH="$WT/src/python" PYTHONDONTWRITEBYTECODE=1 /venv/bin/python -m pytest -q -p no:cacheprovider --timeout=900 --continue-on-collection-errors 2>&1 | tail -1)
  props="$n"; [ -f "seeded/refactors/$n/also" ] && props="$n $(cat seeded/refactors/$n/also)"
  for p in $props; do
    out=$(RV_REPO="$WT" ./check "$p" --tier quick --no-evidence 2>&1); rc=$?
    echo "$n -> $p rc=$rc [$tests] $(echo "$out" | grep -m2 '^VIOLATION\|^UNDECIDED\|^CHECKER\|^FALLBACK' | cut -c1-200 | tr '\n' ' ')"
    [ $rc = 0 ] || bad=1
  done
  git -C "$WT" checkout -q -- . ; git -C "$WT" clean -fdq
done
git -C /repo worktree remove --force "$WT"
exit $bad
