#!/bin/bash
# psweep_seeds.sh <P> seed... : like sweep_seeds.sh but P seeds at a time, each in its own scratch worktree;
# merges the outcomes into seeded/RESULTS.json and the seeds' meta.json.
V="$(cd "$(dirname "$0")/.." && pwd)"; cd "$V"
P="$1"; shift
OUTD=/tmp/psweep_$$; mkdir -p $OUTD
one() {
  n="$1"; p=$(echo "$n" | cut -c1-3); WT=/tmp/wt_psweep_$n
  git -C /repo worktree add -q --detach "$WT" HEAD || exit 9
  if git -C "$WT" apply "$V/seeded/$n/patch.diff"; then
    out=$(RV_REPO="$WT" VERIF_REPLAY_DIR="$OUTD/replays_$n" ./check "$p" --tier quick --no-evidence 2>&1); rc=$?
    nv=$(echo "$out" | grep -c '^VIOLATION')
    obs=$(echo "$out" | grep '^VIOLATION' | sed 's/.*replays\/[^/]*\///; s/\.json//' | head -4 | tr '\n' ' ')
    echo "$n rc=$rc violations=$nv $obs" > $OUTD/$n.txt
    echo "$out" | grep '^UNDECIDED\|^CHECKER' | head -3 >> $OUTD/$n.extra
  else
    echo "$n APPLY-FAILED" > $OUTD/$n.txt
  fi
  git -C /repo worktree remove --force "$WT"
}
for n in "$@"; do
  one "$n" &
  while [ $(jobs -rp | wc -l) -ge "$P" ]; do sleep 2; done
done
wait
cat $OUTD/*.txt > $OUTD/all; cat $OUTD/all; cat $OUTD/*.extra 2>/dev/null
python3 - "$OUTD/all" "$V" <<'PY'
import sys, json, os
V = sys.argv[2]
p = f"{V}/seeded/RESULTS.json"
res = json.load(open(p)) if os.path.exists(p) else {}
for line in open(sys.argv[1]):
    parts = line.split()
    if len(parts) < 2: continue
    n = parts[0]
    if parts[1] == "APPLY-FAILED":
        res[n] = {"detected": None, "note": "patch did not apply"}; continue
    rc = int(parts[1].split("=")[1]); nv = int(parts[2].split("=")[1])
    res[n] = {"detected": rc == 1 and nv > 0, "exit_code": rc, "violations": nv, "first_obligations": parts[3:]}
    mp = f"{V}/seeded/{n}/meta.json"
    if os.path.exists(mp):
        m = json.load(open(mp)); m["detected_by"] = res[n]; json.dump(m, open(mp, "w"), indent=1)
json.dump(res, open(p, "w"), indent=1, sort_keys=True)
PY
rm -rf $OUTD
