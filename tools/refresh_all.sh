#!/bin/sh
# Re-runs every quick check with --update-ledger (rewrites evidence/*.json and contracts/LEDGER.json).
cd /verif
for p in C01 C02 C03 C04 C05 C06 C07 C08 C09 C10 C11 C12 C13 C14 C15 C16 C17 C18 C19 C20; do
  ./check $p --update-ledger 2>&1 | grep -av "^KNOWN\|^WARNING" | tail -2 | tr '\n' ' '; echo
done
./tools/gen_manifest.sh
