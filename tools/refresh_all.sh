#!/bin/sh
# Re-runs every quick check with --update-ledger (rewrites evidence/*.json and contracts/LEDGER.json).
# Full output per property is kept under /tmp/refresh_logs (for triage of anything that is not green).
cd /verif
mkdir -p /tmp/refresh_logs
for p in ${@:-C01 C02 C03 C04 C05 C06 C07 C08 C09 C10 C11 C12 C13 C14 C15 C16 C17 C18 C19 C20}; do
  ./check $p --update-ledger > /tmp/refresh_logs/$p.log 2>&1
  grep -av "^KNOWN\|^WARNING" /tmp/refresh_logs/$p.log | tail -2 | tr '\n' ' '; echo
done
./tools/gen_manifest.sh
