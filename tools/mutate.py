#!/usr/bin/env python3
"""Systematic mutants at the anchor locations of the properties (a complement to the changes written by
sub-agents): small syntactic edits of the real source inside the line ranges that properties.jsonl names,
each tried in a scratch worktree - first against the pinned test suite (mutants the suite kills are not
interesting), then against the quick check of the property the range is anchored to.

  tools/mutate.py list                      -> number of candidate mutants per property
  tools/mutate.py run N [seed] [Cxx ...]    -> samples N mutants per property, prints one line per mutant:
                                               <prop> <file>:<line> <operator> <detail> : suite=pass|fail check=rc
Survivors (suite passes, check exits 0) are either equivalent mutants, changes outside what the property
states, or gaps in the contracts; they are triaged by hand (DESIGN.md 7.9).
"""
import ast
import json
import os
import random
import re
import subprocess
import sys

V = os.path.dirname(os.path.dirname(os.path.abspath(__file__)))
REPO = "/repo"

CMP = {ast.Lt: "<", ast.LtE: "<=", ast.Gt: ">", ast.GtE: ">=", ast.Eq: "==", ast.NotEq: "!="}
CMP_SWAP = {"<": "<=", "<=": "<", ">": ">=", ">=": ">", "==": "!=", "!=": "=="}
BIN = {ast.Add: "+", ast.Sub: "-", ast.LShift: "<<", ast.RShift: ">>", ast.BitAnd: "&", ast.BitOr: "|", ast.Mult: "*", ast.FloorDiv: "//"}
BIN_SWAP = {"+": "-", "-": "+", "<<": ">>", ">>": "<<", "&": "|", "|": "&", "*": "//", "//": "*"}


def anchors():
    out = {}
    for line in open(os.path.join(V, "properties.jsonl")):
        d = json.loads(line)
        spans = []
        for key in ("state", "mechanism"):
            for item in d["anchors"].get(key, []) or []:
                w = item.get("where", "")
                m = re.match(r"^(src/python/rv/[\w/\.]+\.py):([\d,\-]+)$", w)
                if not m:
                    continue
                for part in m.group(2).split(","):
                    a, _, b = part.partition("-")
                    spans.append((m.group(1), int(a), int(b or a)))
        out[d["id"]] = spans
    return out


def offsets(src):
    offs = [0]
    for ln in src.splitlines(keepends=True):
        offs.append(offs[-1] + len(ln))
    return offs


def mutants_for(path, lo, hi):
    full = os.path.join(REPO, path)
    src = open(full).read()
    try:
        tree = ast.parse(src)
    except SyntaxError:
        return []
    offs = offsets(src)

    def pos(line, col):
        # col is a utf8 byte offset; the sources are ASCII in the anchored ranges
        return offs[line - 1] + col

    out = []
    for node in ast.walk(tree):
        ln = getattr(node, "lineno", None)
        if ln is None or not (lo <= ln <= hi):
            continue
        if isinstance(node, ast.Compare) and len(node.ops) == 1 and type(node.ops[0]) in CMP:
            a = pos(node.left.end_lineno, node.left.end_col_offset)
            b = pos(node.comparators[0].lineno, node.comparators[0].col_offset)
            mid = src[a:b]
            op = CMP[type(node.ops[0])]
            if mid.count(op) == 1 and mid.strip() == op:
                i = a + mid.index(op)
                out.append((ln, "cmp", f"{op} -> {CMP_SWAP[op]}", src[:i] + CMP_SWAP[op] + src[i + len(op):]))
        elif isinstance(node, ast.BinOp) and type(node.op) in BIN:
            a = pos(node.left.end_lineno, node.left.end_col_offset)
            b = pos(node.right.lineno, node.right.col_offset)
            mid = src[a:b]
            op = BIN[type(node.op)]
            if mid.strip() == op:
                i = a + mid.index(op)
                out.append((ln, "binop", f"{op} -> {BIN_SWAP[op]}", src[:i] + BIN_SWAP[op] + src[i + len(op):]))
        elif isinstance(node, ast.BoolOp) and len(node.values) == 2:
            a = pos(node.values[0].end_lineno, node.values[0].end_col_offset)
            b = pos(node.values[1].lineno, node.values[1].col_offset)
            mid = src[a:b]
            op = "and" if isinstance(node.op, ast.And) else "or"
            new = "or" if op == "and" else "and"
            if mid.strip() == op:
                i = a + mid.index(op)
                out.append((ln, "boolop", f"{op} -> {new}", src[:i] + new + src[i + len(op):]))
        elif isinstance(node, ast.Constant) and isinstance(node.value, int) and not isinstance(node.value, bool) and node.end_lineno == node.lineno:
            a, b = pos(node.lineno, node.col_offset), pos(node.end_lineno, node.end_col_offset)
            text = src[a:b]
            if re.fullmatch(r"\d+|0x[0-9a-fA-F_]+", text):
                for delta in (1, -1):
                    v = node.value + delta
                    if v < 0:
                        continue
                    rep = hex(v) if text.startswith("0x") else str(v)
                    out.append((ln, "const", f"{text} -> {rep}", src[:a] + rep + src[b:]))
        elif isinstance(node, ast.Constant) and isinstance(node.value, str) and node.end_lineno == node.lineno and re.fullmatch(r"[<>]?[0-9bBhHiIlLqQsx]+", node.value or "") and re.search(r"[bBhHiIlLqQ]", node.value):
            a, b = pos(node.lineno, node.col_offset), pos(node.end_lineno, node.end_col_offset)
            text = src[a:b]
            m = re.search(r"[bBhHiIlLqQ]", text)
            if m and not text.startswith(("f", "b", "r")):
                i = a + m.start()
                out.append((ln, "struct", f"{text} -> {text[:m.start()] + text[m.start()].swapcase() + text[m.end():]}", src[:i] + src[i].swapcase() + src[i + 1:]))
        elif isinstance(node, (ast.Assign, ast.AugAssign, ast.Expr)) and node.end_lineno == node.lineno and not (isinstance(node, ast.Expr) and isinstance(node.value, ast.Constant)):
            a, b = pos(node.lineno, node.col_offset), pos(node.end_lineno, node.end_col_offset)
            out.append((ln, "delete", src[a:b].strip()[:60], src[:a] + "pass" + src[b:]))
        elif isinstance(node, ast.If) and node.test.end_lineno == node.test.lineno:
            a, b = pos(node.test.lineno, node.test.col_offset), pos(node.test.end_lineno, node.test.end_col_offset)
            out.append((ln, "negate", src[a:b][:60], src[:a] + "not (" + src[a:b] + ")" + src[b:]))
    return [(path,) + m for m in out]


def all_mutants():
    res = {}
    for prop, spans in anchors().items():
        seen = set()
        ms = []
        for path, lo, hi in spans:
            if not os.path.exists(os.path.join(REPO, path)):
                continue
            for m in mutants_for(path, lo, hi):
                key = (m[0], m[1], m[2], m[3])
                if key not in seen:
                    seen.add(key)
                    ms.append(m)
        res[prop] = ms
    return res


def run(n, seed, props):
    rnd = random.Random(seed)
    wt = f"/tmp/wt_mut_{os.getpid()}"
    subprocess.run(["git", "-C", REPO, "worktree", "add", "-q", "--detach", wt, "HEAD"], check=True)
    env = dict(os.environ, PYTHONPATH=f"{wt}/src/python", PYTHONDONTWRITEBYTECODE="1")
    try:
        for prop, ms in all_mutants().items():
            if props and prop not in props:
                continue
            rnd.shuffle(ms)
            done = 0
            for path, ln, kind, detail, new_src in ms:
                if done >= n:
                    break
                target = os.path.join(wt, path)
                orig = open(target).read()
                open(target, "w").write(new_src)
                try:
                    t = subprocess.run(["/venv/bin/python", "-m", "pytest", "-q", "-p", "no:cacheprovider", "--timeout=120",
                                        "--continue-on-collection-errors"], cwd=wt, env=env, capture_output=True, text=True, timeout=600)
                    tail = (t.stdout.strip().splitlines() or [""])[-1]
                    suite_ok = "170 passed" in tail
                    if not suite_ok:
                        print(f"{prop} {path}:{ln} {kind} [{detail}] : suite=fail", flush=True)
                        continue
                    done += 1
                    c = subprocess.run([os.path.join(V, "check"), prop, "--tier", "quick", "--no-evidence"], cwd=V, env=dict(os.environ, RV_REPO=wt),
                                       capture_output=True, text=True, timeout=3000)
                    first = next((l for l in c.stdout.splitlines() if l.startswith(("VIOLATION", "UNDECIDED", "CHECKER"))), "")
                    print(f"{prop} {path}:{ln} {kind} [{detail}] : suite=pass check={c.returncode} {first[:150]}", flush=True)
                except subprocess.TimeoutExpired:
                    print(f"{prop} {path}:{ln} {kind} [{detail}] : TIMEOUT", flush=True)
                finally:
                    open(target, "w").write(orig)
    finally:
        subprocess.run(["git", "-C", REPO, "worktree", "remove", "--force", wt])


if __name__ == "__main__":
    if len(sys.argv) < 2 or sys.argv[1] == "list":
        for prop, ms in all_mutants().items():
            print(prop, len(ms))
    else:
        run(int(sys.argv[2]), int(sys.argv[3]) if len(sys.argv) > 3 else 1, sys.argv[4:])
