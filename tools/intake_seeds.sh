#!/bin/sh
# intake_seeds.sh <round tag, e.g. r3> <worktree prefix, e.g. /tmp/seed3_> : copies the deliverables of the
# sub-agents (<prefix>Cxx/_seed/k/{patch.diff,demo.py,notes.txt}) to seeded/Cxx_<tag>_k and verifies each
# (applies, suite still 170 passed, demo fails only with the change).  Rejected ones are removed again.
TAG="$1"; PRE="$2"
cd /verif
for i in $(seq -w 1 20); do
  for k in 1 2; do
    src="${PRE}C$i/_seed/$k"
    [ -f "$src/patch.diff" ] || continue
    dst="/verif/seeded/C${i}_${TAG}_$k"
    [ -d "$dst" ] && continue
    mkdir -p "$dst" && cp "$src/patch.diff" "$src/demo.py" "$dst/" && cp "$src/notes.txt" "$dst/notes.txt" 2>/dev/null
    res=$(sh tools/verify_seed.sh "$dst" 2>&1 | tail -3 | tr '\n' ' ')
    echo "C${i}_${TAG}_$k: $res"
    case "$res" in *"SEED OK"*) ;; *) rm -rf "$dst";; esac
  done
done
