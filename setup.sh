#!/bin/sh
# Offline setup: installs the solver wheels next to /venv's python (which has rv + its deps).
set -e
cd "$(dirname "$0")"
if [ ! -d .deps/z3 ]; then
  mkdir -p .deps
  PIP_NO_INDEX=1 /venv/bin/python -m pip install -q --no-index --find-links /opt/veriftools/wheels \
      --target .deps z3-solver cvc5 jsonschema
fi
PYTHONPATH="$PWD/.deps" /venv/bin/python -c "import z3, rv.api; print('setup ok: z3', z3.get_version_string())"
