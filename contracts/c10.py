"""C10 - stored controller encodings are exact bijections on each controller's range."""
from __future__ import annotations

from rv.controller import CompactRange, Controller, DependentRange, NoOffsetRange, Range
from rvproof.contract import contract

from . import common as K

LEVEL = "proof"
ASSUMPTIONS = [
    "controller value domains are the declared ones (Range min..max, enum members, bool); unit-dependent ranges are verified under every unit member",
    "pattern_value: IEEE-754 binary64 arithmetic as modelled in rvproof.floats (exact rational model: x/2^15 exact, division correctly rounded)",
]
EXPLANATION = (
    "Every clause of C10 is a post-condition on Range.to_raw_value/from_raw_value, Module.get_raw/set_raw and "
    "Controller.pattern_value, generated from the AST of the loaded functions with the controller value symbolic over "
    "its whole declared range and discharged by z3 for all values at once (no enumeration)."
)


def range_cases(tier):
    return [(f"{k[0]}[{k[1]},{k[2]}]@{where}", k) for k, (r, where) in sorted(K.distinct_ranges().items())]


@contract(
    "range_codec", ["C10"],
    targets=["rv.controller:Range.to_raw_value", "rv.controller:Range.from_raw_value",
             "rv.controller:NoOffsetRange.to_raw_value", "rv.controller:NoOffsetRange.from_raw_value"],
    cases=range_cases,
)
def range_codec(H, key):
    """ensures from_raw(to_raw(v)) == v; to_raw(v) == v - min if min < 0 (not no-offset) else v;
    to_raw(v) >= 0 unless no-offset; to_raw injective."""
    r, _ = K.distinct_ranges()[key]
    v = H.int("v", r.min, r.max)
    w = H.int("w", r.min, r.max)
    raw = H.call(r.to_raw_value, v)
    raw_w = H.call(r.to_raw_value, w)
    back = H.call(r.from_raw_value, raw)
    H.check("decode_encode_identity", back == v)
    if isinstance(r, NoOffsetRange):
        H.check("stored_is_value_for_no_offset", raw == v)
    elif r.min < 0:
        H.check("stored_is_value_minus_min", raw == v - r.min)
        H.check("stored_nonnegative", raw >= 0)
    else:
        H.check("stored_is_value", raw == v)
        H.check("stored_nonnegative", raw >= 0)
    H.check("injective", H.implies(raw == raw_w, v == w))
    H.cover("reached")


@contract(
    "range_codec_canary", ["C10"], targets=["rv.controller:Range.to_raw_value"], canary=True,
    cases=lambda tier: [("Range[-128,128]", ("Range", -128, 128))],
)
def range_codec_canary(H, key):
    r = Range(key[1], key[2])
    v = H.int("v", r.min, r.max)
    H.check("canary_stored_is_value", H.call(r.to_raw_value, v) == v)


@contract(
    "module_raw_codec", ["C10"],
    targets=["rv.modules.module:Module.get_raw", "rv.modules.module:Module.set_raw",
             "rv.controller:Controller.instance_value_type", "rv.controller:DependentRange.parent",
             "rv.controller:Range.__call__", "rv.controller:Range.validate"],
    cases=lambda tier: K.controller_cases(tier),
)
def module_raw_codec(H, case):
    """For every class x controller x in-domain value v (symbolic): get_raw gives the documented
    stored value (enum -> .value, bool -> 0/1, range -> offset rule) and set_raw on a fresh module
    restores v, in strict mode (no validation error for in-range values)."""
    cname, name = case
    cls = K.class_by_name(cname)
    m = cls()
    v, t = K.sym_value_in_domain(H, m, name)
    m.controller_values[name] = v
    raw = H.call(m.get_raw, name)
    if isinstance(t, Range):
        if isinstance(t, NoOffsetRange) or t.min >= 0:
            H.check("stored_value", raw == v)
        else:
            H.check("stored_value", raw == v - t.min)
        if not isinstance(t, NoOffsetRange):
            H.check("stored_nonnegative", raw >= 0)
    elif t is bool:
        H.check("stored_value", raw == H.ite(v, 1, 0))
    else:
        H.check("stored_value", raw == v.value)
    H.check("fits_int32", H.and_(raw >= K.I32[0], raw <= K.I32[1]))
    m2 = cls()
    ctl = cls.controllers[name]
    if isinstance(ctl.value_type, DependentRange):
        un = ctl.value_type.ctl_name
        m2.controller_values[un] = m.controller_values[un]
        m2.controllers_loaded.add(un)
    H.call(m2.set_raw, name, raw)
    got = m2.controller_values[name]
    H.check("set_raw_restores", H.eq(got, v))
    if K.is_enum_type(t):
        H.check("restored_is_member", isinstance(got, t))
    H.cover("reached")


def ranged_controller_cases(tier):
    out = []
    for cid, (cname, name) in K.controller_cases(tier):
        t = K.class_by_name(cname).controllers[name].value_type
        if isinstance(t, (Range, DependentRange)):
            out.append((cid, (cname, name)))
    return out


@contract(
    "pattern_value", ["C10"],
    targets=["rv.controller:Controller.pattern_value", "rv.controller:Controller.instance_value_type"],
    cases=ranged_controller_cases,
)
def pattern_value(H, case):
    """Range kind: pv(min) == 0, pv(max) == 0x8000, v <= w  ==>  pv(v) <= pv(w), 0 <= pv(v) <= 0x8000.
    Compact kind: pv(v) == v - min.  (binary64 arithmetic per rvproof.floats)"""
    cname, name = case
    cls = K.class_by_name(cname)
    m = cls()
    ctl = cls.controllers[name]
    t = ctl.value_type
    if isinstance(t, DependentRange):
        t = K.unit_cases(H, m, ctl)
    v = H.int("v", t.min, t.max)
    w = H.int("w", t.min, t.max)
    pv = H.call(ctl.pattern_value, m, v)
    if isinstance(t, CompactRange):
        H.check("compact_is_value_minus_min", pv == v - t.min)
        return
    pw = H.call(ctl.pattern_value, m, w)
    H.check("min_maps_to_0", H.call(ctl.pattern_value, m, t.min) == 0)
    H.check("max_maps_to_0x8000", H.call(ctl.pattern_value, m, t.max) == 0x8000)
    H.check("monotone", H.implies(v <= w, pv <= pw))
    H.check("within_0_0x8000", H.and_(pv >= 0, pv <= 0x8000))
    H.cover("reached")


@contract(
    "pattern_value_canary", ["C10"], targets=["rv.controller:Controller.pattern_value"], canary=True,
    cases=lambda tier: [("Amplifier.volume", ("Amplifier", "volume"))],
)
def pattern_value_canary(H, case):
    cls = K.class_by_name(case[0])
    m = cls()
    ctl = cls.controllers[case[1]]
    v = H.int("v", ctl.value_type.min, ctl.value_type.max)
    H.check("canary_below_0x8000", H.call(ctl.pattern_value, m, v) < 0x8000)


def _dependent_cases(tier):
    out = []
    for cid, (cname, name) in K.controller_cases(tier):
        if isinstance(K.class_by_name(cname).controllers[name].value_type, DependentRange):
            out.append((cid, (cname, name)))
    return out


@contract("pattern_value_after_load", ["C10"], cases=_dependent_cases,
          targets=["rv.controller:Controller.pattern_value", "rv.controller:DependentRange.parent", "rv.modules.module:Module.set_raw", "rv.modules.module:Module.clone"])
def pattern_value_after_load(H, case):
    """Unit-dependent controllers on a module AS THE LOADER LEAVES IT (unit and value applied through
    set_raw during clone()): for every unit, the pattern encoding uses the loaded unit's range -
    min -> 0, max -> 0x8000, monotone - and the stored-value round trip is exact."""
    cname, name = case
    cls = K.class_by_name(cname)
    ctl = cls.controllers[name]
    m = cls()
    t = K.unit_cases(H, m, ctl)
    v = H.int("v", t.min, t.max)
    w = H.int("w", t.min, t.max)
    m.controller_values[name] = v
    q = H.call(m.clone)
    H.check("unit_loaded", q.controller_values[ctl.value_type.ctl_name] == m.controller_values[ctl.value_type.ctl_name])
    H.check("value_loaded", H.eq(q.controller_values[name], v))
    c2 = type(q).controllers[name]
    H.check("min_maps_to_0", H.call(c2.pattern_value, q, t.min) == 0)
    H.check("max_maps_to_0x8000", H.call(c2.pattern_value, q, t.max) == 0x8000)
    H.check("monotone", H.implies(v <= w, H.call(c2.pattern_value, q, v) <= H.call(c2.pattern_value, q, w)))
    H.cover("reached")


@contract(
    "user_defined_raw_codec", ["C10", "C15"],
    targets=["rv.modules.module:Module.get_raw", "rv.modules.module:Module.set_raw", "rv.modules.metamodule:UserDefinedProxy.instance_value_type",
             "rv.modules.metamodule:UserDefinedProxy.controller", "rv.controller:Controller.pattern_value"],
    cases=lambda tier: [(k, i) for i, k in enumerate(["negative_min_range", "bool", "enum", "plain_range", "unset"])],
)
def user_defined_raw_codec(H, i):
    """The MetaModule's user-defined controllers take the value type of the embedded controller they
    are mapped to (negative-minimum range, bool, enum, plain range, or their own 0..44100 when unset):
    get_raw gives the documented stored value for that type for every in-domain value, set_raw
    restores it, and a ranged one maps min -> 0x0000 and max -> 0x8000 in the pattern encoding."""
    from rv.modules.metamodule import MetaModule

    from .c15 import build_metamodule

    m = build_metamodule(H, 5)
    name = f"user_defined_{i + 1}"
    t = m.user_defined[i].value_type
    v = m.controller_values[name]
    raw = H.call(m.get_raw, name)
    if isinstance(t, Range):
        H.check("stored_value", raw == (v - t.min if t.min < 0 else v))
        H.check("stored_nonnegative", raw >= 0)
        ctl = type(m).controllers[name]
        H.check("pattern_value_of_min_is_0x0000", H.call(ctl.pattern_value, m, t.min) == 0)
        H.check("pattern_value_of_max_is_0x8000", H.call(ctl.pattern_value, m, t.max) == 0x8000)
    elif t is bool:
        H.check("stored_value", raw == H.ite(v, 1, 0))
    else:
        H.check("stored_value", raw == v.value)
    before = dict(m.controller_values)
    H.call(m.set_raw, name, raw)
    H.check("set_raw_restores", H.eq(m.controller_values[name], v))
    H.check("set_raw_touches_nothing_else", H.eq({k: x for k, x in m.controller_values.items() if k != name},
                                                 {k: x for k, x in before.items() if k != name}))
    H.cover("reached")


def _file_cases(tier):
    pairs = [("VorbisPlayer", "finetune"), ("Amplifier", "balance"), ("MultiSynth", "transpose"), ("Generator", "polyphony"), ("Amplifier", "bipolar_dc_offset")]
    return [(f"{c}.{n},{ctx}", (c, n, ctx)) for c, n in pairs for ctx in ("project", "synth")]


@contract("stored_value_in_files", ["C10"], cases=_file_cases,
          targets=["rv.project:Project.chunks", "rv.synth:Synth.chunks", "rv.modules.module:Module.get_raw", "rv.readers.module:ModuleReader.process_CVAL",
                   "rv.readers.module:ModuleReader.process_SEND", "rv.modules.module:Module.set_raw"])
def stored_value_in_files(H, case):
    """The value -> stored FILE value -> value chain through both writers (project and stand-alone synth)
    for one controller of every range kind (no-offset with negative values, offset, compact, minimum 1):
    the CVAL chunk holds the documented stored value as a signed 32-bit integer, and loading restores v."""
    from rv.project import Project
    from rv.synth import Synth
    from spec import format as F

    from . import rw

    cname, name, ctx = case
    cls = K.class_by_name(cname)
    m = cls()
    v, t = K.sym_value_in_domain(H, m, name)
    m.controller_values[name] = v
    idx = list(cls.controllers).index(name)
    if ctx == "project":
        p = Project()
        p.attach_module(m)
        exc, data = H.raises(rw.write_container, H, p)
    else:
        exc, data = H.raises(rw.write_container, H, Synth(m))
    H.check("every_legal_value_can_be_written", exc is None)
    if exc is not None:
        return
    chunks = F.parse_stream(data)
    cvals = [c[1] for c in chunks if bytes(c[0]) == b"CVAL"]
    H.check("one_cval_per_controller", len(cvals) >= idx + 1)
    if len(cvals) > idx:
        want = v if (isinstance(t, NoOffsetRange) or t.min >= 0) else v - t.min
        H.check("file_holds_documented_stored_value", F.dec_i32(cvals[idx]) == want)
    q = rw.read_back(H, data)
    q = q.modules[1] if ctx == "project" else q.module
    H.check("loading_restores_value", H.eq(q.controller_values[name], v))
    H.cover("reached")


def _dependent_cases(tier):
    out = []
    for cid, (cname, name) in K.controller_cases(tier):
        if isinstance(K.class_by_name(cname).controllers[name].value_type, DependentRange):
            out.append((cid, (cname, name)))
    return out


@contract("unit_assigned_after_construction", ["C10"], cases=_dependent_cases,
          targets=["rv.modules.module:Module.__init__", "rv.controller:DependentRange.parent", "rv.controller:Controller.instance_value_type",
                   "rv.controller:Controller.pattern_value", "rv.modules.module:Module.get_raw"])
def unit_assigned_after_construction(H, case):
    """A unit-dependent controller on a module built with the plain constructor whose unit is assigned
    AFTERWARDS through the attribute (every unit): the controller's range is the table row of that unit,
    its minimum maps to 0x0000 and its maximum to 0x8000 in the pattern encoding, and the stored value is
    the value itself."""
    cname, name = case
    cls = K.class_by_name(cname)
    ctl = cls.controllers[name]
    t = ctl.value_type
    m = H.call(cls)
    unit_t = cls.controllers[t.ctl_name].value_type
    unit = H.enum("unit", unit_t)
    H.setattr(m, t.ctl_name, unit)
    want = t.range_map[unit]
    got = H.call(ctl.instance_value_type, m)
    H.check("range_is_the_row_of_the_assigned_unit", (got.min, got.max) == (want.min, want.max))
    H.check("pattern_value_of_min_is_0x0000", H.call(ctl.pattern_value, m, want.min) == 0)
    H.check("pattern_value_of_max_is_0x8000", H.call(ctl.pattern_value, m, want.max) == 0x8000)
    v = H.int("v", want.min, want.max)
    H.setattr(m, name, v)
    H.check("stored_value_is_value", H.call(m.get_raw, name) == v)
    H.cover("reached")


@contract("user_defined_value_through_file", ["C10", "C15"], cases=lambda tier: [("synth", "synth"), ("project", "project")],
          targets=["rv.modules.metamodule:MetaModule.MappingArray.update_user_defined_controllers", "rv.readers.module:ModuleReader.process_SEND",
                   "rv.modules.module:Module.set_raw", "rv.modules.module:Module.get_raw"])
def user_defined_value_through_file(H, ctx):
    """v -> stored file value -> v for the MetaModule's user-defined controllers mapped onto a
    negative-minimum range, a bool, an enum and a plain range: the file holds the documented stored value
    (independent decoder) and the LOADED module has the mapped controller's range and gives v back."""
    from rv.modules.metamodule import MetaModule
    from rv.project import Project
    from rv.synth import Synth
    from spec import format as F

    from . import rw
    from .c15 import build_metamodule

    m = build_metamodule(H, 4)
    if ctx == "synth":
        data = rw.write_container(H, Synth(m))
        q = rw.read_back(H, data).module
        sect = F.parse_stream(data)
    else:
        p = Project()
        p.attach_module(m)
        data = rw.write_container(H, p)
        q = rw.read_back(H, data).modules[1]
        chunks = F.parse_stream(data)
        idx = [i for i, c in enumerate(chunks) if bytes(c[0]) == b"SFFF"][1]
        sect = chunks[idx:]
    cvals = [c[1] for c in sect if bytes(c[0]) == b"CVAL"]
    H.check("is_metamodule", type(q) is MetaModule and len(cvals) >= 9)
    if type(q) is not MetaModule or len(cvals) < 9:
        return
    for i in range(4):
        name = f"user_defined_{i + 1}"
        t = m.user_defined[i].value_type
        v = m.controller_values[name]
        if isinstance(t, Range):
            want = v - t.min if t.min < 0 else v
        elif t is bool:
            want = H.ite(v, 1, 0)
        else:
            want = v.value
        H.check(f"{name}.file_holds_documented_stored_value", F.dec_i32(cvals[5 + i]) == want)
        H.check(f"{name}.loaded_value", H.eq(q.controller_values[name], v))
        t2 = q.user_defined[i].value_type
        if isinstance(t, Range):
            H.check(f"{name}.loaded_range_is_the_mapped_controllers", isinstance(t2, Range) and (t2.min, t2.max) == (t.min, t.max))
            H.check(f"{name}.loaded_get_raw", H.call(q.get_raw, name) == want)
    H.cover("reached")
