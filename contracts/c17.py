"""C17 - objects are isolated: no hidden shared state between instances or clones."""
from __future__ import annotations

import enum
import io
import types

import rv.api  # noqa
from rv.controller import Controller, DependentRange, Range
from rv.modules.metamodule import MetaModule
from rv.modules.sampler import Sampler
from rv.note import Note
from rv.option import Option
from rv.pattern import Pattern
from rv.project import Project
from rv.readers.reader import read_sunvox_file
from rv.synth import Synth
from rvproof.contract import contract

from . import common as K
from . import rw
from .c01 import _build_single

TECHNIQUE = "contract-based verification of aliasing freedom after symbolically executed clone()/constructors (complete per class); mutator differential as labelled bounded stand-in"
LEVEL = "other"
LEVEL_TEXT = (
    "Mixed. (a) Structural, complete per class: after the real constructors, Module.clone() (symbolically executed with symbolic state) and "
    "two loads of the same bytes, NO mutable object is reachable from both objects - the object graph does not depend on the symbolic values, "
    "so the aliasing check of each class is exhaustive; class-level objects may be shared only if the frame check shows that the whole "
    "mutator catalogue leaves them unchanged. (b) Bounded differential: every mutator of the catalogue applied to A, snapshot and saved "
    "bytes of B compared (B constructed independently, cloned from A, or loaded from the same file; both directions for clones)."
)
EXPLANATION = LEVEL_TEXT
ASSUMPTIONS = [
    "mutator catalogue: every controller (assignment), every option, in-place edits of every controller MIDI map, name / colour / position, every array payload element, "
    "drawn waveform samples, link tables (connect), pattern cells, MetaModule inner project / mappings / labels / user-controller count, Sampler envelopes / samples / note map",
    "'mutable object' = anything that is not int/str/bytes/float/bool/None/tuple-of-immutables/enum member/function/class/module; descriptors and value "
    "types that live on classes count as class-level and are covered by the class-level frame check",
]

_IMMUTABLE = (int, str, bytes, float, bool, type(None), enum.Enum, types.FunctionType, types.BuiltinFunctionType, type,
              types.ModuleType, types.MethodType, property, staticmethod, classmethod, frozenset, range)


def reachable_mutable(root, stop_at_classes=True):
    """ids -> object for every mutable object reachable from root through instance state."""
    from rvproof.sym import SymBase

    out = {}
    stack = [root]
    while stack:
        o = stack.pop()
        if isinstance(o, _IMMUTABLE) or isinstance(o, SymBase):
            continue
        if isinstance(o, tuple):
            stack.extend(o)
            continue
        if id(o) in out:
            continue
        out[id(o)] = o
        if isinstance(o, dict):
            stack.extend(o.values())
            stack.extend(k for k in o.keys())
        elif isinstance(o, (list, set)):
            stack.extend(o)
        d = getattr(o, "__dict__", None)
        if isinstance(d, dict):
            stack.extend(d.values())
        for k in type(o).__mro__:
            for s in getattr(k, "__slots__", ()) or ():
                if s in ("__weakref__", "__dict__"):
                    continue
                try:
                    stack.append(object.__getattribute__(o, s))
                except AttributeError:
                    pass
    return out


def class_level_objects():
    """Mutable objects that hang off classes of the rv package (allowed to be shared, must never change)."""
    import rv

    out = {}
    seen = set()
    stack = []
    for c in K.module_classes() + [Project, Synth, Pattern, Note, Controller, Option, Range]:
        stack.append(c)
    from rv.chunks import ArrayChunk, DrawnWaveformChunk, WaveformChunk

    stack += [ArrayChunk, DrawnWaveformChunk, WaveformChunk, Sampler.Envelope, Sampler.VolumeEnvelope, Sampler.PanningEnvelope,
              Sampler.PitchEnvelope, Sampler.EffectControlEnvelope, Sampler.NoteSampleMap, Sampler.Sample, MetaModule.MappingArray]
    while stack:
        c = stack.pop()
        if c in seen or not isinstance(c, type) or not (c.__module__ or "").startswith("rv"):
            continue
        seen.add(c)
        for k, v in vars(c).items():
            if isinstance(v, type):
                stack.append(v)
            elif not isinstance(v, _IMMUTABLE) and not k.startswith("__"):
                for i, o in reachable_mutable(v).items():
                    out[i] = (f"{c.__qualname__}.{k}", o)
        stack.extend(c.__mro__[1:])
    return out


def _shared(a, b):
    ra, rb = reachable_mutable(a), reachable_mutable(b)
    cl = class_level_objects()
    both = [ra[i] for i in ra if i in rb and i not in cl]
    return both


def _class_cases(tier):
    return [(K.cls_id(c), K.cls_id(c)) for c in K.module_classes() if c.mtype != "Output"]


@contract("clone_aliases_nothing", ["C17"], cases=_class_cases,
          targets=["rv.modules.module:Module.clone", "rv.modules.module:Module.__init__", "rv.modules.*:<Type>.__init__", "rv.chunks.array:ArrayChunk.reset",
                   "rv.chunks.waveform:WaveformChunk.__init__", "rv.modules.sampler:Sampler.Envelope.__init__", "rv.modules.metamodule:MetaModule.__init__"])
def clone_aliases_nothing(H, cname):
    """Module.clone() executed symbolically on a module with symbolic state: no mutable object is
    reachable from both the original and the clone (nor from two fresh instances of the class), apart
    from class-level objects; the original's state is unchanged by cloning."""
    if cname == "MetaModule":
        from .c15 import build_metamodule

        m = build_metamodule(H, 3)
    elif cname == "Sampler":
        from .c16 import VARIANTS, build_sampler

        m = build_sampler(H, VARIANTS["three_slots"])
    else:
        m = _build_single(H, cname, in_project=False)
        rw.sym_payload(H, m)
    before = K.snapshot(m, depth=12)
    c = H.call(m.clone)
    shared = _shared(m, c)
    H.check("clone_shares_no_mutable_object_with_original", shared == [], witness=[type(o).__name__ for o in shared][:5] if H.mode == "replay" else None)
    H.check("cloning_leaves_original_unchanged", H.eq(K.snapshot(m, depth=12), before))
    a, b = H.call(type(m)), H.call(type(m))
    sh2 = _shared(a, b)
    H.check("two_fresh_instances_share_no_mutable_object", sh2 == [])
    sh3 = _shared(a, m)
    H.check("fresh_instance_shares_nothing_with_existing", sh3 == [])
    H.cover("reached")


# ------------------------------------------------------------------------------- differential (bounded)


def _bytes_of(obj):
    if isinstance(obj, Project):
        return obj.read()
    if isinstance(obj, Pattern):
        return obj.raw_data
    return Synth(obj).read()


def _snap(obj):
    return repr(K.snapshot(obj, depth=12))


def _mutators(m):
    """(label, thunk) pairs that mutate module m through public means."""
    out = []
    cls = type(m)
    for name, ctl in cls.controllers.items():
        if name.startswith("user_defined_"):
            continue
        t = ctl.controller(m).instance_value_type(m)
        cur = m.controller_values.get(name)
        if isinstance(t, Range):
            v = t.max if cur != t.max else t.min
        elif t is bool:
            v = not cur
        elif K.is_enum_type(t):
            v = [x for x in t if x != cur][0] if len(list(t)) > 1 else cur
        else:
            continue
        out.append((f"ctl {name}", lambda name=name, v=v: setattr(m, name, v)))
        out.append((f"cmid {name}", lambda name=name: setattr(m.controller_midi_maps[name], "channel", 5)))
    for name, o in cls.options.items():
        if name == "user_defined_controllers":
            out.append(("option user_defined_controllers", lambda: setattr(m, "user_defined_controllers", 4)))
        else:
            out.append((f"option {name}", lambda name=name, o=o: setattr(m, name, (not getattr(m, name)) if o.size == 1 else 1)))
    out.append(("name", lambda: setattr(m, "name", "renamed")))
    out.append(("color", lambda: setattr(m, "color", (1, 2, 3))))
    out.append(("x", lambda: setattr(m, "x", 77)))
    for attr, arr in rw._array_attrs(m):
        out.append((f"array {attr}[0]", lambda arr=arr: arr.values.__setitem__(0, 1 if arr.values[0] != 1 else 2)))
        out.append((f"array {attr}[-1]", lambda arr=arr: arr.values.__setitem__(len(arr.values) - 1, 3)))
    if hasattr(m, "drawn_waveform"):
        out.append(("drawn waveform sample", lambda: m.drawn_waveform.samples.__setitem__(3, -7)))
    if hasattr(m, "harmonics"):
        out.append(("harmonic volume", lambda: setattr(m.harmonics[2], "volume", 99)))
    if hasattr(m, "mappings") and not isinstance(m, MetaModule):
        out.append(("multictl mapping", lambda: setattr(m.mappings.values[1], "max", 123)))
    if isinstance(m, MetaModule):
        out.append(("metamodule mapping", lambda: setattr(m.mappings.values[0], "module", 1)))
        out.append(("metamodule label", lambda: setattr(m.user_defined[0], "label", "lbl")))
        out.append(("metamodule inner module", lambda: m.project.new_module(type(m.project.output).__mro__[0].__mro__[0] if False else __import__("rv.modules.amplifier", fromlist=["Amplifier"]).Amplifier)))
        out.append(("metamodule inner bpm", lambda: setattr(m.project, "initial_bpm", 99)))
        out.append(("metamodule inner controller", lambda: [setattr(x, "volume", 9) for x in m.project.modules if x is not None and hasattr(type(x), "volume") and type(x).__name__ == "Amplifier"]))
        out.append(("metamodule inner link", lambda: m.project.connect(m.project.modules[-1], m.project.output) if len(m.project.modules) > 1 else None))
    if isinstance(m, Sampler):
        out.append(("sampler envelope point", lambda: m.volume_envelope.points.append((300, 5))))
        out.append(("sampler pitch envelope point", lambda: m.pitch_envelope.points.append((7, 9))))
        out.append(("sampler effect envelope point", lambda: m.effect_control_envelopes[1].points.insert(0, (1, 2))))
        out.append(("sampler envelope flag", lambda: setattr(m.pitch_envelope, "enable", True)))
        out.append(("sampler note map", lambda: m.note_samples.__setitem__(list(m.note_samples)[3], 2)))

        def add_sample():
            s = Sampler.Sample()
            s.data = b"\x01\x02\x03\x04\x05\x06\x07\x08"
            m.samples[7] = s
        out.append(("sampler sample", add_sample))
        out.append(("sampler sample edit", lambda: setattr(m.samples[7], "volume", 9) if m.samples[7] else None))
    return out


@contract(
    "mutating_a_leaves_b_unchanged", ["C17"], kind="bounded", cases=_class_cases,
    targets=["rv.modules.module:Module.__init__", "rv.modules.module:Module.clone", "rv.controller:Controller.__set__", "rv.option:Option.__set__",
             "rv.chunks.array:ArrayChunk.reset", "rv.chunks.waveform:WaveformChunk.__init__", "rv.cmidmap:ControllerMidiMap"],
    bound="per module class: B in {independently constructed, clone of A, loaded from A's bytes, a fresh instance constructed AFTER the mutations}; every mutator of the catalogue applied to A one after another; snapshot(B) and saved bytes of B compared after each; for clones also the reverse direction; native evaluation",
)
def mutating_a_leaves_b_unchanged(H, cname):
    cls = K.class_by_name(cname)
    pristine_bytes = _bytes_of(cls())
    for how in ("constructed", "clone", "loaded", "clone_reverse"):
        a = cls()
        if how == "constructed":
            b = cls()
        elif how in ("clone", "clone_reverse"):
            b = a.clone()
        else:
            b = read_sunvox_file(io.BytesIO(Synth(a).read())).module
        if how == "clone_reverse":
            a, b = b, a
        sb, bb = _snap(b), _bytes_of(b)
        for label, thunk in _mutators(a):
            try:
                thunk()
            except Exception:  # noqa  a mutator that is not applicable to this class/state
                continue
            w = {"class": cname, "b_is": how, "mutator": label}
            H.check("snapshot_of_b_unchanged", _snap(b) == sb, witness=w)
            H.check("saved_bytes_of_b_unchanged", _bytes_of(b) == bb, witness=w)
    # nothing leaked into class-level state: an instance constructed afterwards is pristine
    H.check("later_instance_is_pristine", _bytes_of(cls()) == pristine_bytes, witness={"class": cname})


@contract(
    "loads_of_same_bytes_are_independent", ["C17"], kind="bounded", cases=_class_cases,
    targets=["rv.readers.reader:read_sunvox_file", "rv.modules.metamodule:MetaModule.load_project", "rv.modules.sampler:Sampler.load_chunk"],
    bound="per module class (MetaModule with an embedded module, Sampler with an effect): the same bytes loaded twice, and an object cloned twice; aliasing check (complete for the object graph) plus the mutator catalogue applied to the first copy",
)
def loads_of_same_bytes_are_independent(H, cname):
    cls = K.class_by_name(cname)
    m = cls()
    if isinstance(m, MetaModule):
        from rv.modules.amplifier import Amplifier

        m.project.new_module(Amplifier)
    if isinstance(m, Sampler):
        from rv.modules.amplifier import Amplifier

        m.effect = Synth(Amplifier())
        m.pitch_envelope.points = []  # an envelope saved with zero points
        m.effect_control_envelopes[1].points = []
    data = Synth(m).read()
    a = read_sunvox_file(io.BytesIO(data)).module
    b = read_sunvox_file(io.BytesIO(data)).module
    c1, c2 = m.clone(), m.clone()
    for x, y, what in ((a, b, "two loads"), (c1, c2, "two clones"), (a, c1, "load vs clone"), (m, c1, "original vs clone")):
        sh = _shared(x, y)
        H.check("no_mutable_object_shared", sh == [], witness={"class": cname, "pair": what, "shared": [type(o).__name__ for o in sh][:5]})
    sb, bb = _snap(b), _bytes_of(b)
    for label, thunk in _mutators(a):
        try:
            thunk()
        except Exception:  # noqa
            continue
        H.check("mutating_first_load_leaves_second_unchanged", _snap(b) == sb and _bytes_of(b) == bb, witness={"class": cname, "mutator": label})
    later = read_sunvox_file(io.BytesIO(data)).module
    H.check("later_load_of_same_bytes_is_unaffected", _bytes_of(later) == bb, witness={"class": cname})


@contract("projects_and_patterns_are_independent", ["C17"], kind="bounded",
          targets=["rv.project:Project.__init__", "rv.pattern:Pattern.clear", "rv.container:Container.clone", "rv.project:Project.connect"],
          bound="two projects (constructed; clone; loaded twice) with modules, links and patterns; mutations: connect/disconnect, note cells, project fields, attach; native evaluation")
def projects_and_patterns_are_independent(H, _):
    from rv.modules.amplifier import Amplifier

    def build():
        p = Project()
        x, y = p.new_module(Amplifier), p.new_module(Amplifier)
        p.connect(x, y)
        pat = Pattern(lines=2, tracks=2)
        p.attach_pattern(pat)
        pat.data[0][0].note = 5
        return p

    a = build()
    pairs = [("constructed", build()), ("clone", a.clone()), ("loaded", read_sunvox_file(io.BytesIO(a.read())))]
    for how, b in pairs:
        sh = _shared(a, b)
        H.check("no_mutable_object_shared", sh == [], witness={"b_is": how, "shared": [type(o).__name__ for o in sh][:5]})
    snaps = [(_snap(b), b.read()) for _h, b in pairs]
    muts = [
        ("connect", lambda: a.connect(a.modules[2], a.output)),
        ("disconnect", lambda: a.connect(~a.modules[1], a.modules[2])),
        ("note", lambda: setattr(a.patterns[0].data[1][1], "ctl", 0x1234)),
        ("set_via_fn", lambda: a.patterns[0].set_via_fn(lambda p, l, t: Note(note=7))),
        ("field", lambda: setattr(a, "initial_bpm", 200)),
        ("attach", lambda: a.new_module(Amplifier)),
        ("pattern attr", lambda: setattr(a.patterns[0], "icon", b"\x01" * 32)),
        ("controller", lambda: setattr(a.modules[1], "volume", 3)),
    ]
    for label, thunk in muts:
        thunk()
        for (how, b), (s0, b0) in zip(pairs, snaps):
            H.check("other_project_unchanged", _snap(b) == s0 and b.read() == b0, witness={"b_is": how, "mutator": label})
    p1, p2 = Pattern(lines=2, tracks=2), Pattern(lines=2, tracks=2)
    p1.data[0][0].val = 9
    H.check("patterns_do_not_share_cells", p2.data[0][0].val == 0 and _shared(p1, p2) == [])


@contract("class_level_state_never_changes", ["C17"], kind="bounded",
          targets=["rv.chunks.array:ArrayChunk.default", "rv.chunks.drawnwaveform:DrawnWaveformChunk.default", "rv.modules.sampler:Sampler.Envelope.initial_points",
                   "rv.modules.meta:ModuleMeta (class tables)"],
          bound="snapshot of every mutable object hanging off an rv class, before and after constructing every class and applying the whole mutator catalogue to one instance of each")
def class_level_state_never_changes(H, _):
    cl = class_level_objects()
    before = {i: repr(K.snapshot(o, depth=6)) for i, (_n, o) in cl.items()}
    for cls in K.module_classes():
        if cls.mtype == "Output":
            continue
        m = cls()
        for label, thunk in _mutators(m):
            try:
                thunk()
            except Exception:  # noqa
                pass
        try:
            m.clone()
        except Exception:  # noqa
            pass
    for i, (name, o) in cl.items():
        if name.endswith("._next_order"):
            continue
        H.check("class_level_object_unchanged", repr(K.snapshot(o, depth=6)) == before[i], witness=name)
