"""C06 - edits made to a loaded object are what gets saved."""
from __future__ import annotations

import glob
import io
import os

import rv.api  # noqa
from rv.controller import DependentRange, Range
from rv.modules.sampler import Sampler
from rv.project import Project
from rv.readers.reader import read_sunvox_file
from rv.synth import Synth
from rvproof.contract import contract

from . import common as K
from . import rw
from .c01 import _build_single
from .c16 import F8, F16, F32, FWD, MONO, OFF, PP, STEREO, check_sampler, fill_sampler

TECHNIQUE = "contract-based deductive verification (double symbolic round trip with overwrite on loader-produced states, z3/cvc5); shipped fixtures as labelled bounded stand-in"
LEVEL = "other"
LEVEL_TEXT = (
    "Mixed. Deductive: for every module class, a module is written with symbolic state S1, loaded (so that it is in whatever state the "
    "LOADER leaves it, including anything the loader captured), every catalogue attribute is overwritten with fresh symbolic values S2 "
    "(or only the controllers, to show the rest stays S1), written and loaded again: every obligation `reloaded == S2` (resp. S1) is "
    "discharged for all S1, S2. Same for the Sampler's records, envelopes (with changed point counts), samples and effect, and for the "
    "options record after loading records of every length. Bounded: the shipped fixture files x catalogue attributes (bounded_parts)."
)
EXPLANATION = LEVEL_TEXT
ASSUMPTIONS = [
    "attribute catalogue = common module fields, every range/bool controller, every option, every MIDI-map number, every integer array payload element, "
    "the Sampler record / envelopes / samples / effect; values in the domains of Appendix A.1",
    "fixture part: every fixture, every controller and option of the loaded module(s) set to a value different from the loaded one (native evaluation)",
]
_T = ["rv.synth:Synth.chunks", "rv.project:Project.chunks", "rv.modules.module:Module.iff_chunks", "rv.modules.module:Module.options_chunks",
      "rv.modules.module:Module.load_options", "rv.modules.sampler:Sampler.specialized_iff_chunks", "rv.modules.sampler:Sampler.load_chunk",
      "rv.modules.sampler:Sampler.load_instrument", "rv.modules.sampler:Sampler.Envelope.chunks", "rv.modules.sampler:Sampler.Envelope.load_chdt",
      "rv.readers.module:ModuleReader.process_*", "rv.controller:Controller.__set__", "rv.option:Option.__set__"]


def _pristine_defaults():
    """Class-level default lists of every array payload, copied when the contracts are imported
    (before any code under test has run in this process)."""
    out = {}
    for c in K.module_classes():
        try:
            inst = c()
        except Exception:  # noqa
            continue
        for attr, arr in rw._array_attrs(inst):
            d = getattr(type(arr), "default", None)
            if isinstance(d, list):
                out[(c.__name__, attr)] = list(d)
        dw = getattr(inst, "drawn_waveform", None)
        if dw is not None and isinstance(getattr(type(dw), "default", None), list):
            out[(c.__name__, "drawn_waveform")] = list(type(dw).default)
    return out


_PRISTINE = _pristine_defaults()


def _class_cases(tier):
    out = []
    for c in K.module_classes():
        if c.mtype in ("Output", "Sampler", "MetaModule"):
            continue
        modes = ["edit_all", "edit_controllers_only"]
        if rw._array_attrs(c()) or hasattr(c(), "drawn_waveform"):
            modes.append("edit_payload_in_place")
            modes.append("edit_default_payload_in_place")
        for mode in modes:
            out.append((f"{K.cls_id(c)},{mode}", (K.cls_id(c), mode)))
    return out


@contract("edit_after_load", ["C06"], targets=_T, cases=_class_cases)
def edit_after_load(H, case):
    """state S1 -> save -> load -> overwrite with S2 -> save -> load: shows S2 for what was edited
    and S1 for what was not; nothing of the first file is replayed."""
    cname, mode = case
    m1 = _build_single(H, cname, in_project=False)
    if mode == "edit_default_payload_in_place":
        # the first file carries the DEFAULT payload (elidable chunks are absent from it)
        mode = "edit_payload_in_place"
    else:
        rw.sym_payload(H, m1, pfx="pl1.", variant="noenum")
    q = rw.read_back(H, rw.write_container(H, Synth(m1))).module
    H.check("loaded_same_class", type(q) is type(m1))
    if type(q) is not type(m1):
        return
    if mode == "edit_all":
        rw.sym_module_common(H, q, pfx="e.m.", in_project=False)
        rw.sym_controllers(H, q, pfx="e.c.")
        rw.sym_options(H, q, pfx="e.o.")
        rw.sym_midi_maps(H, q, pfx="e.mm.")
        rw.sym_payload(H, q, pfx="e.pl.")
    elif mode == "edit_payload_in_place":
        # element-wise edits of the LOADED payload objects (no new list is assigned)
        if hasattr(q, "harmonics"):
            # SpectraVoice mirrors its arrays in Harmonic objects: edit through their public setters
            for i in (0, 7, 15):
                q.harmonics[i].freq_hz = H.int(f"e.pl.h{i}.freq", 0, 65535)
                q.harmonics[i].volume = H.int(f"e.pl.h{i}.vol", 0, 255)
                q.harmonics[i].width = H.int(f"e.pl.h{i}.width", 0, 255)
        for attr, arr in rw._array_attrs(q):
            if hasattr(q, "harmonics"):
                break
            lo, hi = rw._ARRAY_RANGE[arr.type]
            for i in (0, len(arr.values) // 2, len(arr.values) - 1):
                arr.values[i] = H.int(f"e.pl.{attr}[{i}]", lo, hi)
        if hasattr(q, "drawn_waveform"):
            for i in (0, 31):
                q.drawn_waveform.samples[i] = H.int(f"e.pl.wave[{i}]", -128, 127)
    else:
        # through the public descriptors, in strict mode
        for name, ctl in type(q).controllers.items():
            t = ctl.value_type
            if isinstance(t, Range):
                H.setattr(q, name, H.int("e.c." + name, t.min, t.max))
            elif t is bool:
                H.setattr(q, name, H.bool("e.c." + name))
    saved = rw.write_container(H, Synth(q))
    r = rw.read_back(H, saved).module
    rw.check_controllers(H, q, r, "edited.ctl")
    if mode == "edit_payload_in_place":
        rw.check_payload(H, q, r, "edited.payload")
        if hasattr(q, "drawn_waveform"):
            # what another process would read: the saved bytes through the independent decoder
            from spec import format as F

            from .c03 import check_drawn_waveform

            check_drawn_waveform(H, F.parse_stream(saved)[2:], q)
            want = _PRISTINE.get((cname, "drawn_waveform"))
            if want is not None:
                H.check("class_default_untouched[drawn_waveform]", H.eq(list(type(q.drawn_waveform).default), want))
        for attr, arr in rw._array_attrs(q):
            want = _PRISTINE.get((cname, attr))
            if want is not None:
                # an edit of a loaded object must not write through to the class-level default
                H.check(f"class_default_untouched[{attr}]", H.eq(list(type(arr).default), want))
                type(arr).default[:] = want  # keep later cases of this process independent
        rw.check_options(H, m1, r, "untouched.opt")
    elif mode == "edit_all":
        rw.check_module_common(H, q, r, "edited", in_project=False)
        rw.check_options(H, q, r, "edited.opt")
        rw.check_midi_maps(H, q, r, "edited.cmid")
        rw.check_payload(H, q, r, "edited.payload")
    else:
        rw.check_module_common(H, m1, r, "untouched", in_project=False)
        rw.check_options(H, m1, r, "untouched.opt")
        rw.check_midi_maps(H, m1, r, "untouched.cmid")
        rw.check_payload(H, m1, r, "untouched.payload")
    H.cover("reached")


S1 = {"samples": {0: (F8, MONO, OFF, 2), 3: (F16, STEREO, FWD, 1)}, "points": {"volume": 4, "panning": 4, "pitch": 2}, "effect": True, "lean": True}
S2 = {"samples": {0: (F32, STEREO, PP, 1), 9: (F8, MONO, OFF, 3)}, "points": {"volume": 6, "panning": 1, "pitch": 0, "effect1": 3}, "effect": False, "lean": True}


@contract("edit_sampler_after_load", ["C06", "C16"], targets=_T, cases=lambda tier: [("clone", "clone"), ("project", "project")])
def edit_sampler_after_load(H, ctx):
    """Sampler: after loading, replace samples (other slots, formats, lengths), envelopes (different
    point COUNTS), note map, record fields, options, and drop the effect; save + load shows exactly the
    new state (the loaded instrument is not 'legacy', so nothing is replayed)."""
    s1 = fill_sampler(H, Sampler(), S1, "a.")
    if ctx == "clone":
        q = H.call(s1.clone)
    else:
        p = Project()
        p.attach_module(s1)
        q = rw.read_back(H, rw.write_container(H, p)).modules[1]
    H.check("loaded_is_not_legacy", type(q) is Sampler and q.is_legacy is False)
    if type(q) is not Sampler:
        return
    fill_sampler(H, q, S2, "b.")
    r = H.call(q.clone)
    check_sampler(H, q, r, "edited")
    H.cover("reached")


def _fixture_cases(tier):
    root = os.path.join(os.environ.get("RV_REPO", "/repo"), "tests", "files")
    files = sorted(glob.glob(os.path.join(root, "*.sunsynth")) + glob.glob(os.path.join(root, "*.sunvox")))
    return [(os.path.basename(f), f) for f in files]


def _new_value(ctl, m, name):
    t = ctl.controller(m).instance_value_type(m)
    cur = m.controller_values[name]
    if isinstance(t, Range):
        for v in (t.min, t.max, (t.min + t.max) // 2):
            if v != cur:
                return v
    elif t is bool:
        return not cur
    elif K.is_enum_type(t):
        for v in t:
            if v != cur:
                return v
    return None


@contract(
    "fixtures_edit_and_resave", ["C06"], kind="bounded", cases=_fixture_cases, targets=_T,
    bound="every shipped fixture (.sunsynth / .sunvox at top level): every attached controller and every option of every loaded module set to a different in-domain value (one at a time for options, all controllers at once), saved, reloaded; native evaluation",
)
def fixtures_edit_and_resave(H, path):
    """Run-time contract evaluation on real files: the reloaded object shows the edited values."""
    data = open(path, "rb").read()
    obj = read_sunvox_file(io.BytesIO(data))
    mods = [obj.module] if isinstance(obj, Synth) else [m for m in obj.modules[1:] if m is not None]
    fname = os.path.basename(path)
    expect = {}
    for mi, m in enumerate(mods):
        unit_names = {c.value_type.ctl_name for c in type(m).controllers.values() if isinstance(c.value_type, DependentRange)}
        for name, ctl in type(m).controllers.items():
            if not ctl.attached(m) or name in unit_names or isinstance(ctl.value_type, DependentRange) or name.startswith("user_defined"):
                continue
            v = _new_value(ctl, m, name)
            if v is None:
                continue
            try:
                setattr(m, name, v)
                expect[(mi, "ctl", name)] = v
            except Exception:  # noqa  (e.g. callbacks of MultiCtl targets): not an edit we can make
                pass
        for name, o in type(m).options.items():
            if name == "user_defined_controllers" or o.exclusive_of:
                continue
            cur = getattr(m, name)
            v = (not cur) if o.size == 1 else ((cur + 1) % (2 ** o.size) if o.max is None else min(o.max, cur + 1))
            setattr(m, name, v)
            expect[(mi, "opt", name)] = getattr(m, name)
        m.mod_finetune = 17
        expect[(mi, "attr", "mod_finetune")] = 17
    out = io.BytesIO()
    obj.write_to(out)
    obj2 = read_sunvox_file(io.BytesIO(out.getvalue()))
    mods2 = [obj2.module] if isinstance(obj2, Synth) else [m for m in obj2.modules[1:] if m is not None]
    for (mi, kind, name), v in expect.items():
        got = getattr(mods2[mi], name)
        H.check(f"edited_{kind}_is_what_gets_saved", got == v, witness={"file": fname, "module": type(mods[mi]).__name__, kind: name, "set": repr(v), "reloaded": repr(got)})


@contract("edit_note_in_old_project", ["C06", "C04"], targets=["rv.readers.sunvox:SunVoxReader.process_end_of_file", "rv.project:Project.chunks",
                                                              "rv.pattern:Pattern.iff_chunks", "rv.note:Note.raw_data"])
def edit_note_in_old_project(H, _):
    """A project whose based-on version is old (any symbolic value), loaded, a note's module number
    edited to any 16-bit value, saved and loaded again: the edited number is what comes back (the
    legacy high-byte fix-up depends on the version the FILE was written by, which the writer stamps
    as current, never on the based-on version)."""
    from rv.pattern import Pattern

    p = Project()
    p.based_on_version = tuple(H.int(f"bver{i}", 0, 255) for i in range(4))
    pat = Pattern(lines=1, tracks=1)
    p.attach_pattern(pat)
    q = rw.read_back(H, rw.write_container(H, p))
    H.check("based_on_version_kept", H.eq(tuple(q.based_on_version), tuple(p.based_on_version)))
    new = H.int("module", 0, 0xFFFF)
    q.patterns[0].data[0][0].module = new
    r = rw.read_back(H, rw.write_container(H, q))
    H.check("edited_module_number_is_what_gets_saved", r.patterns[0].data[0][0].module == new)
    H.cover("reached")


@contract("edit_loaded_sample_in_place", ["C06", "C16"], targets=_T, cases=lambda tier: [("longer", 6), ("shorter", 1), ("empty", 0)])
def edit_loaded_sample_in_place(H, nframes):
    """A loaded Sampler's EXISTING Sample object gets new PCM data of a different length (and a new
    format): save + load returns exactly the new bytes and the new frame count."""
    s1 = fill_sampler(H, Sampler(), {"samples": {2: (F16, MONO, OFF, 3)}, "lean": True}, "a.")
    q = H.call(s1.clone)
    H.check("loaded", type(q) is Sampler and q.samples[2] is not None)
    smp = q.samples[2]
    smp.format, smp.channels = F8, MONO
    smp.data = H.bytes("new_pcm", nframes) if nframes else b""
    smp.volume = H.int("new_volume", 0, 255)
    r = H.call(q.clone)
    got = r.samples[2]
    H.check("sample_still_in_slot", got is not None)
    if got is not None:
        H.check("new_pcm_is_what_gets_saved", H.eq(got.data, smp.data))
        H.check("new_frame_count", got.frames == nframes and got._length == nframes)
        H.check("new_volume", H.eq(got.volume, smp.volume))
    H.cover("reached")


@contract("edit_canary", ["C06"], targets=["rv.modules.module:Module.options_chunks"], canary=True)
def edit_canary(H, _):
    """False claim: an edited 8-bit option survives for every integer (values above 255 are masked)."""
    from rv.modules.sampler import Sampler as S

    s = S()
    q = H.call(s.clone)
    v = H.int("v", 0, 1000)
    q.option_values["fit_to_pattern"] = v
    r = H.call(q.clone)
    H.check("canary_any_value_survives", r.option_values["fit_to_pattern"] == v)


@contract(
    "edit_text_after_load", ["C06"], kind="bounded",
    targets=["rv.readers.module:ModuleReader.process_SNAM", "rv.readers.module:ModuleReader.process_SMIN", "rv.readers.sunvox:SunVoxReader.process_NAME",
             "rv.readers.pattern:PatternReader.process_PNME", "rv.modules.metamodule:MetaModule.load_label", "rv.modules.module:Module.iff_chunks"],
    bound="a generated project (Amplifier, MetaModule with two labelled user-defined controllers, a named pattern) and the fixture single-fm.sunvox, "
          "loaded; every text attribute set to each name of a catalogue (ASCII, multi-byte, 32-byte boundary, leading / trailing / inner white space); natively",
)
def edit_text_after_load(H, _):
    """After loading, setting a text attribute (module name, MIDI-out name, project name, pattern name,
    user-defined controller label) to any text without NUL and saving gives a file that shows that text
    (module names: the longest prefix that fits 32 bytes) and leaves the other texts as they were."""
    import io
    import os

    from rv.modules.amplifier import Amplifier
    from rv.modules.metamodule import MetaModule
    from rv.pattern import Pattern
    from rv.project import Project
    from rv.readers.reader import read_sunvox_file
    from spec import format as F

    from .c01 import WHITESPACE_NAMES

    def cycle(obj):
        f = io.BytesIO()
        obj.write_to(f)
        return read_sunvox_file(io.BytesIO(f.getvalue()))

    def generated():
        p = Project()
        p.new_module(Amplifier, name="amp")
        mm = p.new_module(MetaModule, name="meta")
        mm.user_defined_controllers = 2
        mm.user_defined[0].label = "first"
        mm.user_defined[1].label = "second"
        p.attach_pattern(Pattern(lines=1, tracks=1, name="verse"))
        return cycle(p)

    sources = {"generated": generated}
    fx = os.path.join(os.environ.get("RV_REPO", "/repo"), "tests", "files", "single-fm.sunvox")
    if os.path.exists(fx):
        sources["single-fm.sunvox"] = lambda: read_sunvox_file(fx)
    texts = ["renamed", "ünï ☃ mixed", "exactly thirty-two bytes long !!!", "x" * 40] + WHITESPACE_NAMES
    for sname, make in sources.items():
        for text in texts:
            p = make()
            mods = [m for m in p.modules if m is not None and m.index > 0]
            pats = [x for x in p.patterns if isinstance(x, Pattern)]
            want_name = F.dec_cstring(F.enc_name32(text))
            p.name = text
            for m in mods:
                m.name = text
                m.midi_out_name = text
                if isinstance(m, MetaModule):
                    m.user_defined[0].label = text
            for x in pats:
                x.name = text
            w = {"source": sname, "text": repr(text)}
            try:
                q = cycle(p)
            except Exception as e:  # noqa
                H.check("edited_file_saves_and_loads", False, witness=dict(w, error=repr(e)))
                continue
            H.check("project_name_is_what_was_set", q.name == text, witness=dict(w, got=repr(q.name)))
            for m in mods:
                m2 = q.modules[m.index]
                H.check("module_name_is_what_was_set", m2.name == want_name, witness=dict(w, got=repr(m2.name), want=repr(want_name)))
                H.check("midi_out_name_is_what_was_set", m2.midi_out_name == text, witness=dict(w, got=repr(m2.midi_out_name)))
                if isinstance(m, MetaModule):
                    H.check("label_is_what_was_set", m2.user_defined[0].label == text, witness=dict(w, got=repr(m2.user_defined[0].label)))
                    H.check("other_label_untouched", m2.user_defined[1].label == "second", witness=dict(w, got=repr(m2.user_defined[1].label)))
            for x in pats:
                x2 = q.patterns[p.patterns.index(x)]
                H.check("pattern_name_is_what_was_set", x2.name == text, witness=dict(w, got=repr(x2.name)))
