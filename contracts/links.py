"""Shared pieces for C07 / C08: the link-table invariant, a reference model of the connection
relation and the enumeration of operation histories (small scope, exhaustive)."""
from __future__ import annotations

import itertools

from rv.modules.amplifier import Amplifier
from rv.modules.module import ModuleList
from rv.project import Project


def links_ok(p):
    """LinksOK(project): None if consistent, else a description of the first inconsistency.
    * the two parallel lists of each direction have equal length;
    * every live in-entry k of module d, naming source s and slot j, is mirrored by
      s.out_links[j] == d.index and s.out_link_slots[j] == k; and symmetrically for out-entries;
    * freed entries are -1 in both parallel lists;
    * no module index occurs twice among the live entries of one table."""
    mods = p.modules
    for d in mods:
        if d is None:
            continue
        if len(d.in_links) != len(d.in_link_slots):
            return f"module {d.index}: len(in_links) != len(in_link_slots)"
        if len(d.out_links) != len(d.out_link_slots):
            return f"module {d.index}: len(out_links) != len(out_link_slots)"
        live_in = [x for x in d.in_links if x != -1]
        live_out = [x for x in d.out_links if x != -1]
        if len(set(live_in)) != len(live_in):
            return f"module {d.index}: duplicate source in in_links {d.in_links}"
        if len(set(live_out)) != len(live_out):
            return f"module {d.index}: duplicate destination in out_links {d.out_links}"
        for k, (s, j) in enumerate(zip(d.in_links, d.in_link_slots)):
            if s == -1 or j == -1:
                if s != j:
                    return f"module {d.index}: half-freed in entry {k}: ({s},{j})"
                continue
            if not (0 <= s < len(mods)) or mods[s] is None:
                return f"module {d.index}: in entry {k} names missing module {s}"
            src = mods[s]
            if not (0 <= j < len(src.out_links)) or src.out_links[j] != d.index or src.out_link_slots[j] != k:
                return f"in entry {k} of module {d.index} = ({s},{j}) not mirrored by module {s}: out_links={src.out_links} out_link_slots={src.out_link_slots}"
        for k, (t, j) in enumerate(zip(d.out_links, d.out_link_slots)):
            if t == -1 or j == -1:
                if t != j:
                    return f"module {d.index}: half-freed out entry {k}: ({t},{j})"
                continue
            if not (0 <= t < len(mods)) or mods[t] is None:
                return f"module {d.index}: out entry {k} names missing module {t}"
            dst = mods[t]
            if not (0 <= j < len(dst.in_links)) or dst.in_links[j] != d.index or dst.in_link_slots[j] != k:
                return f"out entry {k} of module {d.index} = ({t},{j}) not mirrored by module {t}: in_links={dst.in_links} in_link_slots={dst.in_link_slots}"
    return None


def graph_of(p):
    """The directed connection set read from the incoming tables."""
    g = set()
    for d in p.modules:
        if d is None:
            continue
        for s in d.in_links:
            if s != -1:
                g.add((s, d.index))
    return g


def graph_of_out(p):
    g = set()
    for s in p.modules:
        if s is None:
            continue
        for t in s.out_links:
            if t != -1:
                g.add((s.index, t))
    return g


def tables(p):
    return [None if m is None else (list(m.in_links), list(m.in_link_slots), list(m.out_links), list(m.out_link_slots))
            for m in p.modules]


def strip_trailing(xs):
    xs = list(xs)
    while xs and xs[-1] == -1:
        xs.pop()
    return xs


def new_project(n):
    p = Project()
    for i in range(n):
        p.attach_module(Amplifier(name=f"m{i + 1}"))
    return p


# ---- operations ---------------------------------------------------------------------------
# An operation is (form, F, T) where F and T are tuples of (module index, disconnect flag).
# form: 'method' -> project.connect(F', T');  'rshift' -> F' >> T';  'lshift' -> T' << F'


def _operand(p, spec, wrap_list):
    objs = []
    for idx, neg in spec:
        m = p.modules[idx]
        objs.append(~m if neg else m)
    if len(objs) == 1 and not wrap_list:
        return objs[0]
    return objs


def apply_op(p, op):
    form, F, T, wrapF, wrapT = op
    f = _operand(p, F, wrapF)
    t = _operand(p, T, wrapT)
    if form == "method":
        p.connect(f, t)
    elif form == "rshift":
        if isinstance(f, list):
            f = ModuleList(p, f)
        r = f >> t
        return r
    elif form == "lshift":
        if isinstance(t, list):
            t = ModuleList(p, t)
        r = t << f
        return r


def model_apply(model, op):
    """Reference semantics: every requested pair is connected, or (if either end is negated) gone."""
    form, F, T, _wf, _wt = op
    model = set(model)
    for (f, fneg) in F:
        for (t, tneg) in T:
            if fneg or tneg:
                model.discard((f, t))
            else:
                model.add((f, t))
    return model


def describe_op(op):
    form, F, T, wf, wt = op

    def side(S, w):
        xs = [("~" if neg else "") + f"m{i}" for i, neg in S]
        return "[" + ",".join(xs) + "]" if (len(xs) > 1 or w) else xs[0]

    if form == "method":
        return f"connect({side(F, wf)}, {side(T, wt)})"
    if form == "rshift":
        return f"{side(F, wf)} >> {side(T, wt)}"
    return f"{side(T, wt)} << {side(F, wf)}"


def single_ops(n_total, forms=("method", "rshift", "lshift")):
    ops = []
    for f in range(n_total):
        for t in range(n_total):
            if f == t:
                continue
            for form in forms:
                for fneg, tneg in ((False, False), (False, True), (True, False)):
                    ops.append((form, ((f, fneg),), ((t, tneg),), False, False))
    return ops


def list_ops(n_total):
    ops = []
    idx = list(range(n_total))
    for f in idx:
        for t1, t2 in itertools.permutations([i for i in idx if i != f], 2):
            for n1, n2 in ((False, False), (True, False), (False, True), (True, True)):
                ops.append(("method", ((f, False),), ((t1, n1), (t2, n2)), False, True))
                ops.append(("rshift", ((f, False),), ((t1, n1), (t2, n2)), False, True))
            ops.append(("method", ((f, True),), ((t1, False), (t2, False)), False, True))
            ops.append(("rshift", ((f, True),), ((t1, False), (t2, False)), False, True))
    # the same module named more than once in one list operand: the pairs are processed in order, the last
    # occurrence decides (a >> [d, d] connects once; [~d, d] ends connected; [d, ~d, d] ends connected)
    for f in idx:
        for t in [i for i in idx if i != f]:
            for pattern in ((False, False), (True, False), (False, True), (False, True, False), (True, False, True)):
                spec = tuple((t, n) for n in pattern)
                ops.append(("method", ((f, False),), spec, False, True))
                ops.append(("rshift", ((f, False),), spec, False, True))
            ops.append(("lshift", ((f, False), (f, False)), ((t, False),), True, False))
    for t in idx:
        for f1, f2 in itertools.permutations([i for i in idx if i != t], 2):
            for n1, n2 in ((False, False), (True, False), (False, True)):
                ops.append(("method", ((f1, n1), (f2, n2)), ((t, False),), True, False))
                ops.append(("rshift", ((f1, n1), (f2, n2)), ((t, False),), True, False))
                ops.append(("lshift", ((f1, n1), (f2, n2)), ((t, False),), True, False))
    return ops


def explore_histories(n_modules, depth, ops, on_state, max_states=200000):
    """Breadth-first over operation sequences, de-duplicated on (tables, model).  on_state(project,
    model, history, op_result) is called for every state reached by applying one more operation."""
    seen = set()
    frontier = [()]
    n_states = 0
    for d in range(depth):
        nxt = []
        for hist in frontier:
            for op in ops:
                p = new_project(n_modules)
                model = set()
                try:
                    for h in hist:
                        apply_op(p, h)
                        model = model_apply(model, h)
                    res = apply_op(p, op)
                    model2 = model_apply(model, op)
                    err = None
                except Exception as e:  # noqa
                    res, model2, err = None, model_apply(model, op), e
                n_states += 1
                on_state(p, model2, hist + (op,), res, err)
                key = (repr(tables(p)), tuple(sorted(model2)))
                if key not in seen and err is None:
                    seen.add(key)
                    nxt.append(hist + (op,))
                if n_states >= max_states:
                    return n_states, len(seen)
        frontier = nxt
    return n_states, len(seen)
