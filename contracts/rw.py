"""Shared harness for the reader/writer contracts (C01-C06, C08, C15, C16):
symbolic state injection per DESIGN.md Appendix A.1, write/read drivers, field-wise comparison."""
from __future__ import annotations

import enum
import io

import rv.api  # noqa
from rv.cmidmap import ControllerMidiMap, MidiMessageType, Slope
from rv.controller import DependentRange, Range
from rv.modules.metamodule import MetaModule
from rv.modules.output import Output
from rv.note import Note
from rv.pattern import Pattern, PatternClone
from rv.project import Project
from rv.readers.reader import read_sunvox_file
from rv.synth import Synth
from rvproof.models import SymFile

from . import common as K

I32, U32, U16, U8 = K.I32, K.U32, K.U16, K.U8

# Appendix A.1: project fields and their domains (struct width of the documented type)
PROJECT_INT_FIELDS = {
    "flags": U32, "initial_bpm": U32, "initial_tpl": U32, "time_grid": U32, "time_grid2": U32,
    "global_volume": U32, "modules_scale": U32, "modules_zoom": U32, "modules_x_offset": I32,
    "modules_y_offset": I32, "modules_layer_mask": U32, "modules_current_layer": U32,
    "timeline_position": I32, "restart_position": I32, "selected_module": U32, "selected_generator": I32,
    "current_pattern": U32, "current_track": U32, "current_line": U32,
    "receive_sync_midi": (0, 7), "receive_sync_other": (0, 7),
}
MODULE_INT_FIELDS = {
    "mod_finetune": I32, "mod_relative_note": I32, "x": I32, "y": I32, "layer": (0, 7), "scale": U32,
    "midi_in_channel": (0, 2**31 - 1), "midi_out_channel": (0, 16), "midi_out_bank": I32, "midi_out_program": I32,
}
MODULE_PROJECT_ONLY = ("x", "y", "layer", "visualization")
PATTERN_INT_FIELDS = {"y_size": U32, "flags_PFLG": U32, "flags_PFFF": U32, "x": I32, "y": I32}
CLONE_INT_FIELDS = {"source": U32, "flags_PFFF": U32, "x": I32, "y": I32}


def bytesio(H, initial=b""):
    if H.mode == "replay":
        return io.BytesIO(bytes(initial))
    return SymFile(initial)


def write_container(H, obj):
    f = bytesio(H)
    H.call(obj.write_to, f)
    data = f.getvalue()
    return data


def read_back(H, data):
    return H.call(read_sunvox_file, bytesio(H, data))


def chunk_list(H, obj):
    return list(H.call(obj.chunks))


# ------------------------------------------------------------------------------- state injection


def sym_project_fields(H, p, pfx="p."):
    for name, (lo, hi) in PROJECT_INT_FIELDS.items():
        setattr(p, name, H.int(pfx + name, lo, hi))
    p.based_on_version = tuple(H.int(f"{pfx}bver{i}", 0, 255) for i in range(4))


def sym_module_common(H, m, pfx="m.", in_project=True):
    for name, (lo, hi) in MODULE_INT_FIELDS.items():
        if not in_project and name in MODULE_PROJECT_ONLY:
            continue
        if name == "scale" and "scale" in type(m).controllers:
            continue  # known finding C09 (Smooth.scale collides with the common attribute)
        setattr(m, name, H.int(pfx + name, lo, hi))
    if in_project:
        m.visualization = H.int(pfx + "visualization", *U32)
    m.color = tuple(H.int(f"{pfx}color{i}", 0, 255) for i in range(3))
    m.midi_in_always = H.bool(pfx + "midi_in_always")
    # flags: any u32 that contains the type's default bits (the reader ORs them in)
    extra = H.int(pfx + "flags_extra", 0, 2**32 - 1)
    m.flags = extra | type(m).default_flags


def sym_controllers(H, m, pfx="c.", only=None):
    """All range/bool controllers symbolic at once (unit controllers stay at their default, the
    dependants range over the default unit's range); enum controllers keep their default unless
    `only` names one, which is then case-split over its members."""
    cls = type(m)
    vals = {}
    for name, ctl in cls.controllers.items():
        if name.startswith("user_defined_"):
            continue
        c = ctl.controller(m)
        t = c.instance_value_type(m)
        if isinstance(t, Range):
            v = H.int(pfx + name, t.min, t.max)
        elif t is bool:
            v = H.bool(pfx + name)
        elif K.is_enum_type(t):
            if only == name:
                v = H.enum(pfx + name, t)
            else:
                continue
        else:
            continue
        m.controller_values[name] = v
        vals[name] = v
    return vals


def sym_options(H, m, pfx="o."):
    for name, o in type(m).options.items():
        if name == "user_defined_controllers":
            continue
        if o.size == 1:
            m.option_values[name] = H.bool(pfx + name)
        else:
            m.option_values[name] = H.int(pfx + name, 0, 2**o.size - 1)


def sym_midi_maps(H, m, pfx="mm.", split=None, fixed=None):
    """channel and message parameter of every attached controller's MIDI map symbolic at once;
    message type / slope of the controller named `split` case-split over their members."""
    for name, ctl in type(m).controllers.items():
        if not ctl.attached(m):
            continue
        mm = m.controller_midi_maps[name]
        mm.channel = H.int(f"{pfx}{name}.channel", 0, 255)
        mm.message_parameter = H.int(f"{pfx}{name}.param", 0, 0xFFFF)
        if split == name:
            mm.message_type = H.enum(f"{pfx}{name}.type", MidiMessageType)
            mm.slope = H.enum(f"{pfx}{name}.slope", Slope)
        if fixed and name in fixed:
            mm.message_type, mm.slope = fixed[name]


def sym_note(H, n, pfx):
    n.note = H.int(pfx + "note", 0, 255)
    n.vel = H.int(pfx + "vel", 0, 129)
    n.module = H.int(pfx + "module", 0, 0xFFFF)
    n.ctl = H.int(pfx + "ctl", 0, 0xFFFF)
    n.val = H.int(pfx + "val", 0, 0xFFFF)


def sym_pattern(H, pat, pfx="pat."):
    for name, (lo, hi) in PATTERN_INT_FIELDS.items():
        setattr(pat, name, H.int(pfx + name, lo, hi))
    pat.fg_color = tuple(H.int(f"{pfx}fg{i}", 0, 255) for i in range(3))
    pat.bg_color = tuple(H.int(f"{pfx}bg{i}", 0, 255) for i in range(3))
    pat.icon = H.bytes(pfx + "icon", 32)
    for l, row in enumerate(pat.data):
        for t, n in enumerate(row):
            sym_note(H, n, f"{pfx}n{l}_{t}.")


def sym_clone(H, c, pfx="cl."):
    for name, (lo, hi) in CLONE_INT_FIELDS.items():
        setattr(c, name, H.int(pfx + name, lo, hi))


# ------------------------------------------------------------------------------- comparison


def check_project_fields(H, p, q, tag="project"):
    for name in PROJECT_INT_FIELDS:
        H.check(f"{tag}.{name}", H.eq(getattr(q, name), getattr(p, name)))
    H.check(f"{tag}.based_on_version", H.eq(tuple(q.based_on_version), tuple(p.based_on_version)))
    H.check(f"{tag}.name", q.name == p.name)
    H.check(f"{tag}.loaded_version_is_writer_stamp", H.eq(tuple(q.loaded_sunvox_version), tuple(p.sunvox_version)))


def check_module_common(H, m, q, tag="module", in_project=True):
    H.check(f"{tag}.same_class", type(q) is type(m))
    for name in MODULE_INT_FIELDS:
        if not in_project and name in MODULE_PROJECT_ONLY:
            continue
        if name == "scale" and "scale" in type(m).controllers:
            continue
        H.check(f"{tag}.{name}", H.eq(getattr(q, name), getattr(m, name)))
    if in_project:
        H.check(f"{tag}.visualization", H.eq(q._visualization, m._visualization))
    H.check(f"{tag}.color", H.eq(tuple(q.color), tuple(m.color)))
    H.check(f"{tag}.midi_in_always", H.eq(q.midi_in_always, m.midi_in_always))
    H.check(f"{tag}.flags", H.eq(q.flags, m.flags))
    H.check(f"{tag}.name", q.name == m.name)
    H.check(f"{tag}.midi_out_name", q.midi_out_name == m.midi_out_name)


def check_controllers(H, m, q, tag="ctl"):
    for name in type(m).controllers:
        if name.startswith("user_defined_"):
            continue
        H.check(f"{tag}[{name}]", H.eq(q.controller_values[name], m.controller_values[name]))


def check_options(H, m, q, tag="opt"):
    for name in type(m).options:
        H.check(f"{tag}[{name}]", H.eq(q.option_values[name], m.option_values[name]))


def check_midi_maps(H, m, q, tag="cmid"):
    for name, ctl in type(m).controllers.items():
        if not ctl.attached(m):
            continue
        a, b = m.controller_midi_maps[name], q.controller_midi_maps[name]
        H.check(f"{tag}[{name}]", H.and_(H.eq(b.channel, a.channel), H.eq(b.message_parameter, a.message_parameter),
                                          b.message_type == a.message_type, b.slope == a.slope))


def check_note(H, a, b, tag):
    H.check(tag, H.eq([b.note, b.vel, b.module, b.ctl, b.val], [a.note, a.vel, a.module, a.ctl, a.val]))


def check_pattern(H, a, b, tag="pattern"):
    H.check(f"{tag}.is_pattern", type(b) is Pattern)
    if type(b) is not Pattern:
        return
    for name in list(PATTERN_INT_FIELDS) + ["tracks", "lines"]:
        H.check(f"{tag}.{name}", H.eq(getattr(b, name), getattr(a, name)))
    H.check(f"{tag}.fg_color", H.eq(tuple(b.fg_color), tuple(a.fg_color)))
    H.check(f"{tag}.bg_color", H.eq(tuple(b.bg_color), tuple(a.bg_color)))
    H.check(f"{tag}.icon", H.eq(b.icon, a.icon))
    H.check(f"{tag}.name", b.name == a.name)
    H.check(f"{tag}.shape", len(b.data) == len(a.data) and all(len(x) == len(y) for x, y in zip(a.data, b.data)))
    for l, (ra, rb) in enumerate(zip(a.data, b.data)):
        for t, (na, nb) in enumerate(zip(ra, rb)):
            check_note(H, na, nb, f"{tag}.cell[{l}][{t}]")


def check_clone(H, a, b, tag="clone"):
    H.check(f"{tag}.is_clone", type(b) is PatternClone)
    if type(b) is not PatternClone:
        return
    for name in CLONE_INT_FIELDS:
        H.check(f"{tag}.{name}", H.eq(getattr(b, name), getattr(a, name)))


# ------------------------------------------------------------------------------- type-specific payloads

_ARRAY_RANGE = {"B": (0, 255), "H": (0, 65535), "b": (-128, 127), "h": (-32768, 32767), "I": U32, "i": I32}


def _array_attrs(m):
    """(attribute name, ArrayChunk) pairs of plain integer arrays on the module."""
    from rv.chunks import ArrayChunk

    out = []
    for k, v in vars(m).items():
        if isinstance(v, ArrayChunk) and isinstance(v.type, str) and len(v.type) == 1 and v.type in _ARRAY_RANGE:
            out.append((k, v))
    return out


def sym_payload(H, m, pfx="pl.", variant=None):
    """Make the type-specific payload of `m` symbolic within its element types.  Returns a list of
    human-readable notes about parts that stay concrete (bounded parts)."""
    from rv.modules.analoggenerator import AnalogGenerator
    from rv.modules.fmx import Fmx
    from rv.modules.generator import Generator
    from rv.modules.multictl import MultiCtl
    from rv.modules.spectravoice import SpectraVoice
    from rv.modules.vorbisplayer import VorbisPlayer

    notes = []
    for attr, arr in _array_attrs(m):
        lo, hi = _ARRAY_RANGE[arr.type]
        if isinstance(m, SpectraVoice) and attr == "harmonic_types":
            continue
        if variant == "inplace":
            # the list the module was constructed with, edited item by item
            for i in range(arr.length):
                arr.values[i] = H.int(f"{pfx}{attr}[{i}]", lo, hi)
        else:
            arr.values = [H.int(f"{pfx}{attr}[{i}]", lo, hi) for i in range(arr.length)]
    if isinstance(m, SpectraVoice):
        # enum-typed array: one element case-split at a time
        i = variant if isinstance(variant, int) else 0
        if variant != "noenum":
            m.harmonic_types.values[i] = H.enum(f"{pfx}harmonic_types[{i}]", SpectraVoice.HarmonicType)
        for h in m.harmonics:
            h._freq_hz = m.harmonic_freqs.values[h.index]
            h._volume = m.harmonic_volumes.values[h.index]
            h._width = m.harmonic_widths.values[h.index]
            h._type = m.harmonic_types.values[h.index]
    if isinstance(m, (AnalogGenerator, Generator)):
        if variant == "inplace":
            # the samples list the module was constructed with, edited item by item
            for i in range(32):
                m.drawn_waveform.samples[i] = H.int(f"{pfx}wave[{i}]", -128, 127)
        else:
            m.drawn_waveform.samples = [H.int(f"{pfx}wave[{i}]", -128, 127) for i in range(32)]
    if isinstance(m, MultiCtl):
        for i, mp in enumerate(m.mappings.values):
            for f in ("min", "max", "controller", "flags", "future_use2", "future_use3", "future_use4", "future_use5"):
                setattr(mp, f, H.int(f"{pfx}map[{i}].{f}", *U32))
    if isinstance(m, VorbisPlayer):
        n = variant if isinstance(variant, int) else 5
        m.data = H.bytes(pfx + "data", n) if n else None
    if isinstance(m, Fmx):
        # every finite binary32 value in every one of the 256 frames (opaque bit patterns, see rvproof.floats.SymF32)
        if variant == "inplace":
            for i in range(m.custom_waveform.length):
                m.custom_waveform.values[i] = H.f32(f"{pfx}custom_waveform[{i}]")
        else:
            m.custom_waveform.values = [H.f32(f"{pfx}custom_waveform[{i}]") for i in range(m.custom_waveform.length)]
    return notes


def check_payload(H, m, q, tag="payload"):
    from rv.modules.analoggenerator import AnalogGenerator
    from rv.modules.generator import Generator
    from rv.modules.multictl import MultiCtl
    from rv.modules.spectravoice import SpectraVoice
    from rv.modules.vorbisplayer import VorbisPlayer

    for attr, arr in _array_attrs(m):
        H.check(f"{tag}.{attr}", H.eq(list(getattr(q, attr).values), list(arr.values)))
    if isinstance(m, SpectraVoice):
        H.check(f"{tag}.harmonic_types", H.eq(list(q.harmonic_types.values), list(m.harmonic_types.values)))
        H.check(f"{tag}.harmonics", H.eq(
            [(h.freq_hz, h.volume, h.width, h.type) for h in q.harmonics],
            [(h.freq_hz, h.volume, h.width, h.type) for h in m.harmonics]))
    if isinstance(m, (AnalogGenerator, Generator)):
        H.check(f"{tag}.drawn_waveform", H.eq(list(q.drawn_waveform.samples), list(m.drawn_waveform.samples)))
    if isinstance(m, MultiCtl):
        fs = ("min", "max", "controller", "flags", "future_use2", "future_use3", "future_use4", "future_use5")
        H.check(f"{tag}.mappings", H.eq([[getattr(x, f) for f in fs] for x in q.mappings.values],
                                        [[getattr(x, f) for f in fs] for x in m.mappings.values]))
    if isinstance(m, VorbisPlayer):
        H.check(f"{tag}.data", H.eq(q.data if q.data else b"", m.data if m.data is not None else b""))
    if type(m).__name__ == "Fmx":
        a, b = list(m.custom_waveform.values), list(q.custom_waveform.values)
        H.check(f"{tag}.custom_waveform.length", len(a) == len(b) == 256)
        H.check(f"{tag}.custom_waveform.bit_exact", H.eq([f32_bits(x) for x in b], [f32_bits(x) for x in a]))


def f32_bits(x):
    """The binary32 pattern of a (symbolic or real) float as four byte items, little-endian."""
    import struct

    bits = getattr(x, "bits", None)
    if bits is not None:
        return list(bits)
    return list(struct.pack("<f", x))


def payload_variants(cls, tier):
    """Case-split parameter for payloads that cannot be all-symbolic at once."""
    name = cls.__name__
    if name == "SpectraVoice":
        return [0, 15] if tier == "quick" else list(range(16))
    if name == "VorbisPlayer":
        return [0, 1, 5] if tier == "quick" else [0, 1, 2, 5, 64]
    if name in ("Generator", "AnalogGenerator", "MultiSynth", "Fmx"):
        # payloads with an elidable chunk: also edited in place (the list the constructor made)
        return [None, "inplace"]
    return [None]


def join(parts):
    """b"".join for byte strings that may be symbolic (contract bodies run natively)."""
    from rvproof.models import bytes_join

    return bytes_join(b"", list(parts))
