"""C12 - note cells and packed bit-fields are lossless; sub-field setters independent."""
from __future__ import annotations

import io

from rv.modules.module import LevelMode, Module, Orientation, OscilloscopeMode, Visualization
from rv.note import NOTECMD, Note
from rv.pattern import Pattern
from rv.project import Project
from rv.readers.module import ModuleReader
from rv.readers.sunvox import SunVoxReader
from rvproof.contract import contract

from . import common as K

LEVEL = "proof"
ASSUMPTIONS = [
    "note fields range over the attrs validators' domains (note byte 0..255 which includes every NOTECMD, vel 0..129, module/ctl/val 0..0xFFFF)",
    "pattern shapes are enumerated up to the stated bound (contents are symbolic, shapes are concrete): that part is listed under bounded_parts",
    "a Visualization word's enumerated parts hold defined members before a setter runs (as the property states); remaining bits of the 32-bit word are arbitrary",
]


def _sym_note(H, pfx=""):
    n = Note()
    n.note = H.int(pfx + "note", 0, 255)
    n.vel = H.int(pfx + "vel", 0, 129)
    n.module = H.int(pfx + "module", 0, 0xFFFF)
    n.ctl = H.int(pfx + "ctl", 0, 0xFFFF)
    n.val = H.int(pfx + "val", 0, 0xFFFF)
    return n


def _note_fields(n):
    return [n.note, n.vel, n.module, n.ctl, n.val]


@contract(
    "note_cell_codec", ["C12", "C01", "C03"],
    targets=["rv.note:Note.raw_data (getter)", "rv.note:Note.raw_data (setter)"],
)
def note_cell_codec(H, _):
    """ensures len(raw) == 8 and the documented layout NN VV MMMM(le) CCEE(le) XXYY(le);
    decode(encode(n)) == n field by field; encode(decode(b)) == b for every 8-byte string whose
    velocity byte is arbitrary."""
    n = _sym_note(H)
    raw = H.getattr(n, "raw_data")
    H.check("cell_is_8_bytes", len(raw) == 8)
    H.check("layout_note", raw[0] == n.note)
    H.check("layout_vel", raw[1] == n.vel)
    H.check("layout_module_le", H.and_(raw[2] == n.module % 256, raw[3] == n.module // 256))
    H.check("layout_ctl_le", H.and_(raw[4] == n.ctl % 256, raw[5] == n.ctl // 256))
    H.check("layout_val_le", H.and_(raw[6] == n.val % 256, raw[7] == n.val // 256))
    n2 = Note()
    H.setattr(n2, "raw_data", raw)
    H.check("decode_encode_identity", H.eq(_note_fields(n2), _note_fields(n)))
    b = H.bytes("b", 8)
    n3 = Note()
    H.setattr(n3, "raw_data", b)
    H.check("encode_decode_identity", H.eq(H.getattr(n3, "raw_data"), b))
    H.cover("reached")


@contract("note_cell_canary", ["C12"], targets=["rv.note:Note.raw_data (getter)"], canary=True)
def note_cell_canary(H, _):
    n = _sym_note(H)
    raw = H.getattr(n, "raw_data")
    H.check("canary_module_big_endian", raw[2] == n.module // 256)


def _subfield_cases(tier):
    return [(f, f) for f in ("controller", "effect", "val_xx", "val_yy")]


@contract(
    "note_subfield_setters", ["C12"],
    targets=["rv.note:Note.controller", "rv.note:Note.effect", "rv.note:Note.val_xx", "rv.note:Note.val_yy"],
    cases=_subfield_cases,
)
def note_subfield_setters(H, field):
    """For every old word and every new value: after `n.<f> = v`, `n.<f> == v & 0xFF` and the
    other half of the word, and every other field of the note, are unchanged."""
    n = _sym_note(H)
    old = {k: H.getattr(n, k) for k in ("controller", "effect", "val_xx", "val_yy")}
    old_other = [n.note, n.vel, n.module]
    v = H.int("new", 0, 0xFFFF)
    H.setattr(n, field, v)
    H.check("reads_back_masked", H.getattr(n, field) == v % 256)
    for k in ("controller", "effect", "val_xx", "val_yy"):
        if k != field:
            H.check(f"{k}_unchanged", H.getattr(n, k) == old[k])
    H.check("other_fields_unchanged", H.eq([n.note, n.vel, n.module], old_other))
    H.check("word_in_range", H.and_(n.ctl >= 0, n.ctl <= 0xFFFF, n.val >= 0, n.val <= 0xFFFF))
    H.cover("reached")


# ------------------------------------------------------------------------------- patterns

_SHAPES_QUICK = [(1, 1), (1, 3), (2, 2), (3, 2)]
_SHAPES_THOROUGH = [(l, t) for l in range(1, 6) for t in range(1, 6)]


def _shape_cases(tier):
    shapes = _SHAPES_QUICK if tier == "quick" else _SHAPES_THOROUGH
    return [(f"{l}x{t}", (l, t)) for l, t in shapes]


@contract(
    "pattern_row_major", ["C12", "C01", "C03"],
    targets=["rv.pattern:Pattern.raw_data (getter)", "rv.pattern:Pattern.raw_data (setter)",
             "rv.pattern:Pattern.data", "rv.pattern:Pattern.clear"],
    cases=_shape_cases,
)
def pattern_row_major(H, shape):
    """For a lines x tracks pattern with symbolic cell contents: raw_data has lines*tracks*8 bytes,
    bytes (l*tracks+t)*8.. are cell (l,t); loading any byte image of that size and saving gives
    the same bytes.  Shapes are concrete (bounded), contents symbolic."""
    lines, tracks = shape
    p = Pattern(lines=lines, tracks=tracks)
    img = H.bytes("img", lines * tracks * 8)
    # velocity bytes are only constrained by the attrs validator at construction, not on load
    H.setattr(p, "raw_data", img)
    data = H.getattr(p, "data")
    H.check("shape", H.and_(len(data) == lines, all(len(row) == tracks for row in data)))
    for l in range(lines):
        for t in range(tracks):
            off = (l * tracks + t) * 8
            cell = data[l][t]
            H.check(f"cell_{l}_{t}_is_slice", H.eq(H.getattr(cell, "raw_data"), img[off:off + 8]))
    out = H.getattr(p, "raw_data")
    H.check("length", len(out) == lines * tracks * 8)
    H.check("byte_identical", H.eq(out, img))
    # a second image loaded into the SAME pattern (which now holds notes) replaces every cell
    img2 = H.bytes("img2", lines * tracks * 8)
    H.setattr(p, "raw_data", img2)
    out2 = H.getattr(p, "raw_data")
    H.check("second_image_byte_identical", H.eq(out2, img2))
    H.cover("reached")


# ------------------------------------------------------------------------------- visualization

_VIS_FIELDS = ["level_mode", "orientation", "oscilloscope_mode", "oscilloscope_size",
               "bg_transparency", "shadow_opacity"]

# documented layout of the visualization word (docs/sunvox-file-format.rst, SVPR):
# field -> (shift, mask)
_VIS_LAYOUT = {
    "level_mode": (0, 0b11111),
    "orientation": (5, 1),
    "oscilloscope_mode": (8, 0b11111),
    "oscilloscope_size": (16, 0xFF),
    "bg_transparency": (24, 3),
    "shadow_opacity": (26, 3),
}


def _vis_extract(word, field):
    shift, mask = _VIS_LAYOUT[field]
    return (word >> shift) & mask


def _vis_word(H):
    w = H.int("word", 0, 2**32 - 1)
    H.assume((w % 32) <= 4)  # LevelMode members 0..4
    H.assume(((w // 256) % 32) <= 7)  # OscilloscopeMode members 0..7
    return w


def _vis_expected(H, field, v):
    if field in ("level_mode", "orientation", "oscilloscope_mode"):
        return v
    if field == "oscilloscope_size":
        return H.ite(v < 0, 0, H.ite(v > 0xFF, 0xFF, v))
    return H.ite(v < 0, 0, H.ite(v > 3, 3, v))


@contract(
    "visualization_getters", ["C12"],
    targets=["rv.modules.module:Visualization." + f + " (getter)" for f in _VIS_FIELDS],
    cases=lambda tier: [(f, f) for f in _VIS_FIELDS],
)
def visualization_getters(H, field):
    """Each sub-field getter returns the documented bit-field of the word (as the enum member
    for the enumerated parts), for every 32-bit word whose enumerated parts hold defined members."""
    w = _vis_word(H)
    vis = Visualization(w)
    got = H.getattr(vis, field)
    H.check("getter_is_documented_bitfield", got == _vis_extract(w, field))
    if field == "level_mode":
        H.check("is_member", isinstance(got, LevelMode))
    elif field == "orientation":
        H.check("is_member", isinstance(got, Orientation))
    elif field == "oscilloscope_mode":
        H.check("is_member", isinstance(got, OscilloscopeMode))
    H.cover("reached")


@contract(
    "visualization_setters", ["C12"],
    targets=["rv.modules.module:Visualization." + f + " (setter)" for f in _VIS_FIELDS],
    cases=lambda tier: [(f, f) for f in _VIS_FIELDS],
)
def visualization_setters(H, field):
    """For every 32-bit old word whose enumerated parts hold defined members, and every new value
    (enum member for the enumerated parts, any int for the clamped parts): afterwards the
    sub-field's bit-field holds the value (clamped to its width), the getter returns it, and the
    bit-field of every other sub-field - hence by the getter contract its value - is unchanged."""
    w = _vis_word(H)
    vis = Visualization(w)
    if field == "level_mode":
        v = H.enum("new", LevelMode)
    elif field == "orientation":
        v = H.enum("new", Orientation)
    elif field == "oscilloscope_mode":
        v = H.enum("new", OscilloscopeMode)
    else:
        v = H.int("new", -(2**16), 2**16)
    H.setattr(vis, field, v)
    w2 = vis.value
    H.check("bitfield_holds_value", _vis_extract(w2, field) == _vis_expected(H, field, v))
    H.check("reads_back", H.getattr(vis, field) == _vis_expected(H, field, v))
    for f in _VIS_FIELDS:
        if f != field:
            H.check(f"{f}_unchanged", _vis_extract(w2, f) == _vis_extract(w, f))
    H.check("undocumented_bits_unchanged",
            H.and_((w2 >> 6) & 3 == (w >> 6) & 3, (w2 >> 13) & 7 == (w >> 13) & 7, w2 >> 28 == w >> 28))
    H.check("word_stays_u32", H.and_(w2 >= 0, w2 <= 2**32 - 1))
    H.cover("reached")


# ------------------------------------------------------------------------------- SMII / SFGS


def _chunk_payload(H, gen, wanted):
    for name, data in gen:
        if name == wanted:
            return data
    return None


@contract(
    "smii_pack_unpack", ["C12", "C01", "C05"],
    targets=["rv.modules.module:Module.iff_chunks", "rv.readers.module:ModuleReader.process_SMII"],
)
def smii_pack_unpack(H, _):
    """MIDI-in word: for every always-flag and every channel 0..2^31-1 the written SMII chunk
    decodes to the same pair (sub-fields do not disturb each other)."""
    from rv.modules.amplifier import Amplifier

    m = Amplifier()
    m.midi_in_always = H.bool("always")
    m.midi_in_channel = H.int("channel", 0, 2**31 - 1)
    data = _chunk_payload(H, H.call(m.iff_chunks, in_project=True), b"SMII")
    H.check("chunk_present_4_bytes", data is not None and len(data) == 4)
    r = ModuleReader(io.BytesIO(b""), index=1)
    r._object = Amplifier()
    H.call(r.process_SMII, data)
    H.check("always_roundtrip", H.eq(r._object.midi_in_always, m.midi_in_always))
    H.check("channel_roundtrip", r._object.midi_in_channel == m.midi_in_channel)
    H.cover("reached")


@contract(
    "sfgs_pack_unpack", ["C12", "C01", "C05"],
    targets=["rv.project:Project.chunks", "rv.readers.sunvox:SunVoxReader.process_SFGS"],
)
def sfgs_pack_unpack(H, _):
    """Project sync flags: both 3-bit sub-fields survive SFGS for every pair of values 0..7."""
    p = Project()
    p.receive_sync_midi = H.int("midi", 0, 7)
    p.receive_sync_other = H.int("other", 0, 7)
    data = _chunk_payload(H, H.call(p.chunks), b"SFGS")
    H.check("chunk_present_4_bytes", data is not None and len(data) == 4)
    r = SunVoxReader(io.BytesIO(b""))
    r._object = Project()
    H.call(r.process_SFGS, data)
    H.check("midi_roundtrip", r._object.receive_sync_midi == p.receive_sync_midi)
    H.check("other_roundtrip", r._object.receive_sync_other == p.receive_sync_other)
    H.cover("reached")


@contract("note_and_pattern_constructors_accept_the_whole_domain", ["C12"],
          targets=["rv.note:Note.__init__ (attrs validators)", "rv.lib.validators:in_range", "rv.pattern:Pattern.__init__ (attrs validators)"])
def note_and_pattern_constructors_accept_the_whole_domain(H, _):
    """Every in-domain field value - including the upper ends vel 129 and 0xFFFF for module / ctl / val -
    can be given to Note(...), reads back, and encodes to the 8 documented bytes; a pattern may have the
    documented maximum of 32 tracks."""
    from rv.note import NOTECMD, Note
    from spec import format as F

    vel = H.int("vel", 0, 129)
    module = H.int("module", 0, 0xFFFF)
    ctl = H.int("ctl", 0, 0xFFFF)
    val = H.int("val", 0, 0xFFFF)
    exc, n = H.raises(H.call, Note, note=NOTECMD.C4, vel=vel, module=module, ctl=ctl, val=val)
    H.check("in_domain_note_is_accepted", exc is None)
    if exc is None:
        H.check("fields_read_back", H.eq((n.vel, n.module, n.ctl, n.val), (vel, module, ctl, val)))
        H.check("encodes_to_documented_bytes", H.eq(H.getattr(n, "raw_data"), F.enc_note(NOTECMD.C4.value, vel, module, ctl, val)))
    for v, m_, c, x in ((129, 0xFFFF, 0xFFFF, 0xFFFF), (0, 0, 0, 0)):
        e, _n = H.raises(H.call, Note, vel=v, module=m_, ctl=c, val=x)
        H.check("boundary_note_is_accepted", e is None)
    e, pat = H.raises(H.call, Pattern, lines=4, tracks=32)
    H.check("thirty_two_tracks_accepted", e is None and pat is not None and pat.tracks == 32)
    H.cover("reached")
