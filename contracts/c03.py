"""C03 - written files conform to the documented SunVox chunk format."""
from __future__ import annotations

from rv.controller import NoOffsetRange, Range
from rv.modules.output import Output
from rv.pattern import Pattern, PatternClone
from rv.project import Project
from rv.synth import Synth
from rvproof.contract import contract
from spec import format as F
from spec import yamlspec

from . import common as K
from . import rw
from .c01 import _build_single
from .c02 import _variant_cases

LEVEL = "proof"
ASSUMPTIONS = [
    "the oracle is /verif/spec/format.py (tables transcribed from docs/sunvox-file-format.rst, one comment per table naming the doc section) plus specs/fileformat.yaml read on every run; it shares no code with rv's readers/writers",
    "documented-vs-real slips (note-cell byte order, PATN/PATL typo, signedness of LGEN/CVAL) are resolved as stated at the top of spec/format.py",
    "undocumented chunks current SunVox writes (FLGS from the YAML, SFGS, SLnK) are accepted as extension chunks and decoded with the meaning given there",
    "same symbolic state families as C01/C02 (values symbolic, shapes concrete)",
]
EXPLANATION = (
    "The bytes produced by the symbolically executed writer are parsed by the independent chunk parser and decoded field by field with the "
    "spec codecs; each obligation states `spec_decode(chunk) == object field` or a structural rule, for all field values at once."
)
_T = ["rv.lib.iff:write_chunk", "rv.project:Project.chunks", "rv.synth:Synth.chunks", "rv.modules.module:Module.iff_chunks",
      "rv.modules.module:Module.options_chunks", "rv.cmidmap:ControllerMidiMap.cmid_data", "rv.pattern:Pattern.iff_chunks",
      "rv.pattern:PatternClone.iff_chunks", "rv.note:Note.raw_data", "rv.chunks.chunk:Chunk.chunks", "rv.chunks.array:ArrayChunk.bytes"]


def _ids(chunks):
    return [bytes(c[0]) for c in chunks]


def _check_module_section(H, chunks, m, in_project, tag="mod"):
    """chunks: the module's own chunk list [SFFF .. SEND]."""
    ids = _ids(chunks)
    H.check(f"{tag}.starts_with_SFFF_ends_with_SEND", ids[0] == b"SFFF" and ids[-1] == b"SEND" and ids.count(b"SEND") == 1)
    by = {}
    for cid, payload in chunks:
        by.setdefault(bytes(cid), []).append(payload)
    # documented common chunks: presence, order, width, content
    expected_order = []
    for cid, attr, kind, cond in F.MODULE_CHUNKS:
        b = cid.encode()
        present = True
        if cond == "project-only":
            present = in_project
        elif cond == "absent-for-output":
            present = not isinstance(m, Output)
        elif cond == "absent-if-none":
            present = bool(getattr(m, attr))
        H.check(f"{tag}.{cid}.presence", (b in by) == present)
        if not present or b not in by:
            continue
        expected_order.append(b)
        payload = by[b][0]
        H.check(f"{tag}.{cid}.once", len(by[b]) == 1)
        if kind == "midi_in":
            H.check(f"{tag}.{cid}.len", len(payload) == 4)
            always, ch = F.dec_midi_in(payload)
            H.check(f"{tag}.SMII.decodes", H.and_(H.eq(always, m.midi_in_always), ch == m.midi_in_channel))
            continue
        enc, dec, width = F.codec(kind)
        if width is not None:
            H.check(f"{tag}.{cid}.len", len(payload) == width)
        if kind == "name32":
            H.check(f"{tag}.SNAM.is_spec_encoding", H.eq(payload, F.enc_name32(m.name)))
        elif kind == "cstring":
            H.check(f"{tag}.{cid}.is_cstring", H.eq(payload, F.enc_cstring(getattr(m, attr))))
        else:
            val = m._visualization if attr == "visualization" else getattr(m, attr)
            if attr == "scale" and "scale" in type(m).controllers:
                continue  # known finding (C09)
            H.check(f"{tag}.{cid}.decodes", H.eq(dec(payload), tuple(val) if kind == "rgb" else val))
    common = [i for i in ids if i in {c[0].encode() for c in F.MODULE_CHUNKS}]
    H.check(f"{tag}.common_chunks_in_documented_order", common == expected_order)
    # tail: SLNK [SLnK] CVAL* CMID? CHNK? (CHNM CHDT CHFF? CHFR?)* SEND
    tail = ids[len(common):] if ids[:len(common)] == common else [i for i in ids if i not in set(common)]
    state = 0
    order_ok = True
    rank = {b"SLNK": 1, b"SLnK": 2, b"CVAL": 3, b"CMID": 4, b"CHNK": 5, b"CHNM": 6, b"CHDT": 6, b"CHFF": 6, b"CHFR": 6, b"SEND": 7}
    for i in tail:
        r = rank.get(i)
        if r is None or r < state:
            order_ok = False
        else:
            state = r
    H.check(f"{tag}.tail_in_documented_order", order_ok, witness=[x.decode() for x in tail])
    if in_project:
        H.check(f"{tag}.SLNK.present_once", len(by.get(b"SLNK", [])) == 1)
    # controller values: one per attached controller, documented stored value
    attached = [(n, c) for n, c in type(m).controllers.items() if c.attached(m)]
    cvals = by.get(b"CVAL", [])
    H.check(f"{tag}.one_CVAL_per_attached_controller", len(cvals) == len(attached))
    for (name, ctl), payload in zip(attached, cvals):
        H.check(f"{tag}.CVAL[{name}].len", len(payload) == 4)
        v = m.controller_values[name]
        t = ctl.controller(m).instance_value_type(m)
        if isinstance(t, Range):
            want = v if (isinstance(t, NoOffsetRange) or t.min >= 0) else v - t.min
        elif t is bool:
            want = H.ite(v, 1, 0)
        else:
            want = v.value if v is not None else 0
        H.check(f"{tag}.CVAL[{name}].decodes", F.dec_i32(payload) == want)
    cmid = by.get(b"CMID", [])
    H.check(f"{tag}.CMID.presence", len(cmid) == (1 if attached else 0))
    if cmid:
        H.check(f"{tag}.CMID.8_bytes_per_value", len(cmid[0]) == 8 * len(cvals))
        for i, (name, ctl) in enumerate(attached):
            mm = m.controller_midi_maps[name]
            rec = cmid[0][8 * i: 8 * i + 8]
            H.check(f"{tag}.CMID[{name}].is_spec_encoding",
                    H.eq(rec, F.enc_cmid(mm.message_type.value, mm.channel, mm.slope.value, mm.message_parameter)))
    # CHNK count and chunk numbers
    chnm = [F.dec_u32(p) for p in by.get(b"CHNM", [])]
    if chnm:
        H.check(f"{tag}.CHNK.present", len(by.get(b"CHNK", [])) == 1)
    if b"CHNK" in by:
        count = F.dec_u32(by[b"CHNK"][0])
        H.check(f"{tag}.CHNK.len", len(by[b"CHNK"][0]) == 4)
        for n in chnm:
            H.check(f"{tag}.CHNM_{n}_below_CHNK", n < count, witness=(n, count))
    H.check(f"{tag}.each_CHNM_followed_by_CHDT", all(ids[i + 1] == b"CHDT" for i, x in enumerate(ids) if x == b"CHNM"))
    # options record
    cls = type(m)
    if cls.options:
        want_chnm = F.OPTIONS_CHNM[cls.mtype]
        pos = [i for i, x in enumerate(ids) if x == b"CHNM" and F.dec_u32(chunks[i][1]) == want_chnm]
        spec = {o.name: o for o in yamlspec.spec_by_mtype()[cls.mtype].options}
        # the options chunk is the CHNM with the documented number whose CHDT has the record length
        top = max(o.byte for o in spec.values())
        cands = [i for i in pos if len(chunks[i + 1][1]) == top + 1]
        if cls.mtype in ("MultiSynth", "Analog generator", "Sound2Ctl", "MetaModule", "Sampler"):
            H.check(f"{tag}.options_chunk_present", len(cands) >= 1)
        if cands:
            rec = chunks[cands[-1] + 1][1]
            for name, o in spec.items():
                stored = m.option_values[name]
                sv = H.ite(stored, 1, 0) if o.size == 1 else stored
                H.check(f"{tag}.option[{name}].at_documented_bits", (rec[o.byte] >> o.bit) % (2 ** o.size) == sv)


def _split_modules(chunks):
    """Split a project chunk list into header / pattern slots / module slots by PEND / SEND."""
    ids = _ids(chunks)
    first_mod = ids.index(b"SFFF") if b"SFFF" in ids else len(ids)
    pat_ids = {b"PDTA", b"PPAR", b"PEND"}
    first_pat = next((i for i, x in enumerate(ids[:first_mod]) if x in pat_ids), first_mod)
    header = chunks[:first_pat]
    pats, cur = [], []
    for c in chunks[first_pat:first_mod]:
        cur.append(c)
        if bytes(c[0]) == b"PEND":
            pats.append(cur)
            cur = []
    mods, cur2 = [], []
    for c in chunks[first_mod:]:
        cur2.append(c)
        if bytes(c[0]) == b"SEND":
            mods.append(cur2)
            cur2 = []
    return header, pats, mods, cur, cur2


def _check_project_header(H, header, p, tag="proj"):
    ids = _ids(header)
    H.check(f"{tag}.magic_first", ids[0] == b"SVOX" and len(header[0][1]) == 0)
    by = {bytes(c[0]): c[1] for c in header}
    H.check(f"{tag}.no_duplicate_header_chunks", len(by) == len(header))
    order = []
    for cid, attr, kind, omit_when in F.PROJECT_CHUNKS:
        b = cid.encode()
        if b not in by:
            if omit_when is not None:
                H.check(f"{tag}.{cid.strip()}.omitted_only_at_default", H.eq(getattr(p, attr), omit_when))
            else:
                H.check(f"{tag}.{cid.strip()}.present", False)
            continue
        order.append(b)
        payload = by[b]
        if kind == "sfgs":
            mi, ot = F.dec_sfgs(payload)
            H.check(f"{tag}.SFGS.decodes", H.and_(len(payload) == 4, mi == p.receive_sync_midi, ot == p.receive_sync_other))
            continue
        enc, dec, width = F.codec(kind)
        if width is not None:
            H.check(f"{tag}.{cid.strip()}.len", len(payload) == width)
        if kind == "cstring":
            H.check(f"{tag}.{cid.strip()}.is_cstring", H.eq(payload, F.enc_cstring(getattr(p, attr))))
        else:
            val = getattr(p, attr)
            H.check(f"{tag}.{cid.strip()}.decodes", H.eq(dec(payload), tuple(val) if kind == "version" else val))
    H.check(f"{tag}.header_in_documented_order", ids[1:] == order, witness=[x.decode() for x in ids])


@contract("project_stream_conforms", ["C03"], targets=_T)
def project_stream_conforms(H, _):
    """Project with symbolic settings: the written bytes parse as a well-formed chunk stream; header
    chunks appear once, in documented order, with documented width / signedness / byte order."""
    p = Project()
    rw.sym_project_fields(H, p)
    data = rw.write_container(H, p)
    chunks = F.parse_stream(data)
    header, pats, mods, rest_p, rest_m = _split_modules(chunks)
    H.check("well_formed_slots", rest_p == [] and rest_m == [])
    _check_project_header(H, header, p)
    H.check("one_module_slot", len(mods) == 1)
    _check_module_section(H, mods[0], p.modules[0], True, tag="output")
    H.cover("reached")


@contract("module_stream_conforms", ["C03"], targets=_T, cases=_variant_cases)
def module_stream_conforms(H, case):
    """Per module class, both contexts: every chunk of the module section decodes, with the spec
    codecs, to the module's public state; structural rules (SNAM 32 bytes, #CVAL = #attached
    controllers, 8 CMID bytes per value, CHNM < CHNK, options at their documented bits) hold."""
    cname, variant = case
    ctx = H.choice("context", ["project", "synth", "synth_of_attached_module"])
    m = _build_single(H, cname, in_project=(ctx == "project"))
    rw.sym_payload(H, m, variant=variant)
    if ctx == "synth_of_attached_module":
        # a .sunsynth written for a module that lives in a project has the same (stand-alone) layout
        Project().attach_module(m)
        ctx = "synth"
    if ctx == "project":
        p = Project()
        p.attach_module(m)
        chunks = F.parse_stream(rw.write_container(H, p))
        header, pats, mods, rest_p, rest_m = _split_modules(chunks)
        H.check("well_formed_slots", rest_p == [] and rest_m == [] and len(mods) == 2)
        sect = mods[1]
    else:
        chunks = F.parse_stream(rw.write_container(H, Synth(m)))
        ids = _ids(chunks)
        H.check("synth_magic_then_version", ids[:2] == [b"SSYN", b"VERS"] and len(chunks[0][1]) == 0
                and H.eq(chunks[1][1], F.enc_version((2, 1, 2, 1))))
        sect = chunks[2:]
    _check_module_section(H, sect, m, ctx == "project")
    _check_array_chunks(H, sect, m)
    H.cover("reached")


def _check_array_chunks(H, sect, m, tag="array"):
    """YAML module_types.*.chunks: CHNM number, length and element type of each array payload."""
    spec = yamlspec.spec_by_mtype()[type(m).mtype]
    ids = _ids(sect)
    found = {}
    for i, x in enumerate(ids):
        if x == b"CHNM":
            found.setdefault(F.dec_u32(sect[i][1]), sect[i + 1][1])
    sizes = {"unsigned short": ("<H", 2), "unsigned byte": ("<B", 1)}
    for ch in spec.chunks:
        if ch.get("parent_type") != "Array" or ch.get("element_type") not in sizes:
            continue
        arr = getattr(m, {"note_velocity_curve": "nv_curve", "velocity_velocity_curve": "vv_curve",
                          "note_pitch_curve": "np_curve"}.get(ch["name"], ch["name"]), None)
        if arr is None:
            continue
        n = ch.get("length") or len(ch.get("default") or [])
        code, sz = sizes[ch["element_type"]]
        payload = found.get(ch["chnm"])
        if payload is None:
            # only elidable payloads may be absent
            # compared with the SPECIFICATION's default (the class-level default list is code under test)
            H.check(f"{tag}.{ch['name']}.absent_only_if_default", ch["name"] == "note_pitch_curve" and isinstance(ch.get("default"), list)
                    and H.eq(list(arr.values), list(ch["default"])))
            continue
        H.check(f"{tag}.{ch['name']}.length", len(payload) == n * sz)
        vals = [F.M.unpack(code, payload[i * sz:(i + 1) * sz])[0] for i in range(n)] if len(payload) == n * sz else None
        want = [getattr(v, "value", v) for v in arr.values]
        H.check(f"{tag}.{ch['name']}.elements_little_endian_in_row_order", vals is not None and H.eq(vals, want))
    check_drawn_waveform(H, sect, m)


def check_drawn_waveform(H, sect, m):
    """[doc: "Drawn waveform chunk"] for Generator / AnalogGenerator sections (used by C03 and C06)."""
    if not hasattr(m, "drawn_waveform"):
        return
    ids = _ids(sect)
    # [doc: "Drawn waveform chunk"] CHNM 0: 32 frames of signed 8-bit mono at 44100 Hz; a file without
    # it denotes the documented default waveform
    samples = list(m.drawn_waveform.samples)
    pos = [i for i, x in enumerate(ids) if x == b"CHNM" and F.dec_u32(sect[i][1]) == 0]
    if not pos:
        H.check("drawn_waveform.absent_only_if_documented_default", H.eq(samples, F.DRAWN_WAVEFORM_DEFAULT))
    else:
        i = pos[0]
        H.check("drawn_waveform.CHDT_follows", ids[i + 1:i + 2] == [b"CHDT"])
        data = sect[i + 1][1]
        H.check("drawn_waveform.32_frames", len(data) == 32)
        if len(data) == 32:
            H.check("drawn_waveform.signed_8bit_samples", H.eq([H.ite(b >= 128, b - 256, b) for b in data], samples))
        # CHFF / CHFR are optional companions (SunVox itself writes only CHFR here); when present
        # they must state the fixed format (mono 8-bit) and rate (44100)
        for j in (i + 2, i + 3):
            if j < len(ids) and ids[j] == b"CHFF":
                H.check("drawn_waveform.format_mono_8bit", F.dec_u32(sect[j][1]) == 1)
            elif j < len(ids) and ids[j] == b"CHFR":
                H.check("drawn_waveform.rate_44100", F.dec_u32(sect[j][1]) == 44100)
            else:
                break


def _pattern_cases(tier):
    return [("2x2", (2, 2))] if tier == "quick" else [("2x2", (2, 2)), ("3x1", (3, 1)), ("1x4", (1, 4))]


@contract("pattern_stream_conforms", ["C03"], targets=_T, cases=_pattern_cases)
def pattern_stream_conforms(H, shape):
    """Pattern, clone and empty slot: documented ids in documented order, PDTA = lines*tracks*8 bytes
    of spec-encoded cells in row-major order, every slot terminated by exactly one PEND."""
    lines, tracks = shape
    p = Project()
    pat = Pattern(lines=lines, tracks=tracks)
    rw.sym_pattern(H, pat)
    pat.name = H.choice("name", [None, "verse"])
    p.attach_pattern(pat)
    p.attach_pattern(None)
    cl = PatternClone(source=0)
    rw.sym_clone(H, cl)
    p.attach_pattern(cl)
    chunks = F.parse_stream(rw.write_container(H, p))
    header, pats, mods, rest_p, rest_m = _split_modules(chunks)
    H.check("three_pattern_slots_each_ending_in_PEND", len(pats) == 3 and rest_p == [])
    H.check("empty_slot_is_only_PEND", _ids(pats[1]) == [b"PEND"])
    for slot, obj, table, name in ((pats[0], pat, F.PATTERN_CHUNKS, "pattern"), (pats[2], cl, F.CLONE_CHUNKS, "clone")):
        by = {bytes(c[0]): c[1] for c in slot}
        order = []
        for cid, attr, kind, cond in table:
            b = cid.encode()
            present = not (cond == "absent-if-none" and getattr(obj, attr) is None)
            H.check(f"{name}.{cid}.presence", (b in by) == present)
            if b not in by:
                continue
            order.append(b)
            payload = by[b]
            if kind == "notes":
                H.check("PDTA.size_is_lines_x_tracks_x_8", len(payload) == lines * tracks * 8)
                for l in range(lines):
                    for t in range(tracks):
                        n = pat.data[l][t]
                        off = (l * tracks + t) * 8
                        H.check(f"PDTA.cell[{l}][{t}]", H.eq(payload[off:off + 8], F.enc_note(n.note, n.vel, n.module, n.ctl, n.val)))
                continue
            enc, dec, width = F.codec(kind)
            if width is not None:
                H.check(f"{name}.{cid}.len", len(payload) == width)
            if kind == "cstring":
                H.check(f"{name}.{cid}.is_cstring", H.eq(payload, F.enc_cstring(getattr(obj, attr))))
            else:
                val = getattr(obj, attr)
                H.check(f"{name}.{cid}.decodes", H.eq(dec(payload), tuple(val) if kind == "rgb" else val))
        H.check(f"{name}.documented_order_then_PEND", _ids(slot) == order + [b"PEND"])
    H.cover("reached")


@contract("stream_canary", ["C03"], targets=["rv.modules.module:Module.iff_chunks"], canary=True)
def stream_canary(H, _):
    from rv.modules.amplifier import Amplifier

    m = Amplifier()
    m.mod_finetune = H.int("ft", *K.I32)
    chunks = list(H.call(m.iff_chunks, in_project=True))
    payload = [c[1] for c in chunks if c[0] == b"SFIN"][0]
    H.check("canary_SFIN_is_unsigned", F.dec_u32(payload) == m.mod_finetune)
