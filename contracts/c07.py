"""C07 - connecting and disconnecting keep the link tables mutually consistent."""
from __future__ import annotations

from rv.errors import ModuleOwnershipError
from rv.modules.amplifier import Amplifier
from rv.modules.module import DisconnectingModule, ModuleList
from rv.project import Project
from rvproof.contract import contract

from . import links as L

LEVEL = "other"
LEVEL_TEXT = (
    "Mixed. (a) Deductive: the single-pair step of Project.connect is verified against the link-table invariant for tables of "
    "ARBITRARY length and content (array-theory encoding of the four parallel lists, contract c07 'connect_step_*', see evidence); "
    "(b) bounded: the composition over operation histories, list operands and the operator sugar is an exhaustive small-scope "
    "enumeration of histories run on the real code with the invariant and a reference model evaluated as run-time contracts. "
    "(b) is listed under bounded_parts and is not counted as proved."
)
EXPLANATION = LEVEL_TEXT
ASSUMPTIONS = [
    "small scope for histories: projects with output + 3 modules, all single-pair operations in all three forms and all two-element list operations, depth 3 (quick) / 4 (thorough), de-duplicated on reached state",
    "operator forms covered: p.connect(a, b), a >> b, b << a, a >> ~b, ~a >> b, module >> [list], [ModuleList] >> module, [ModuleList] << ..., with ~ on any element",
    "plain Python lists on the left of >> are not part of the API (list has no __rshift__); ModuleList, which the operators return, is",
]


def _check_state(H, p, model, hist, res, err):
    where = " ; ".join(L.describe_op(o) for o in hist)
    H.check("operation_does_not_raise", err is None, witness={"history": where, "error": repr(err)})
    if err is not None:
        return
    bad = L.links_ok(p)
    H.check("tables_mutually_consistent", bad is None, witness={"history": where, "problem": bad})
    g = L.graph_of(p)
    H.check("connections_equal_requested", g == model,
            witness={"history": where, "have": sorted(g), "want": sorted(model)})
    H.check("out_tables_describe_same_graph", L.graph_of_out(p) == g, witness={"history": where})
    op = hist[-1]
    if op[0] in ("rshift", "lshift"):
        # the operators return their right-hand operand (lists wrapped so that chaining works)
        want = op[2] if op[0] == "rshift" else op[1]
        objs = [p.modules[i] for i, _neg in want]
        if isinstance(res, list):
            ok = isinstance(res, ModuleList) and [getattr(x, "orig", x) if isinstance(x, DisconnectingModule) else x for x in res] == objs
        else:
            r = res.__dict__["orig"] if isinstance(res, DisconnectingModule) else res
            ok = len(objs) == 1 and r is objs[0]
        H.check("operator_returns_right_operand", ok, witness={"history": where})


def _scope(H):
    return (3, 3) if getattr(H, "tier", "quick") == "quick" else (3, 4)


@contract(
    "connect_histories", ["C07"], kind="bounded",
    targets=["rv.project:Project.connect", "rv.project:Project.module_index", "rv.modules.module:Module.__rshift__",
             "rv.modules.module:Module.__lshift__", "rv.modules.module:Module.__invert__",
             "rv.modules.module:ModuleList.__rshift__", "rv.modules.module:ModuleList.__lshift__",
             "rv.modules.module:DisconnectingModule"],
    bound="all histories of single-pair operations (3 forms x connect/disconnect x ordered pairs) up to depth 3 (quick) / 4 (thorough) on output + 3 modules, de-duplicated on state; native evaluation of the invariant and of the reference model after every operation",
)
def connect_histories(H, _):
    """After every operation of every history: no exception, LinksOK holds, the connection set equals
    the reference model (requested pairs connected exactly once, disconnected pairs gone, nothing else
    changed), operators return their right operand."""
    n, depth = _scope(H)
    ops = L.single_ops(n + 1)
    stats = L.explore_histories(n, depth, ops, lambda *a: _check_state(H, *a))
    H.cover(f"states={stats[0]} distinct={stats[1]}")


@contract(
    "connect_list_operands", ["C07"], kind="bounded",
    targets=["rv.project:Project.connect", "rv.modules.module:ModuleList.__rshift__", "rv.modules.module:ModuleList.__lshift__"],
    bound="every reachable state of depth <= 2 single-pair histories, followed by every two-element list operation (method, >>, <<; every ~ pattern); output + 3 modules",
)
def connect_list_operands(H, _):
    """List operands: every pair of the request is honoured even when some pairs of the same request
    are already (dis)connected."""
    n = 3
    singles = [o for o in L.single_ops(n + 1, forms=("method",))]
    lists = L.list_ops(n + 1)
    seen = set()
    frontier = [()]
    for d in range(2 if getattr(H, "tier", "quick") == "quick" else 3):
        nxt = []
        for hist in frontier:
            for op in singles:
                p = L.new_project(n)
                for h in hist + (op,):
                    L.apply_op(p, h)
                key = repr(L.tables(p))
                if key not in seen:
                    seen.add(key)
                    nxt.append(hist + (op,))
        frontier = nxt + ([()] if d == 0 else [])
        for hist in frontier:
            for lop in lists:
                p = L.new_project(n)
                model = set()
                for h in hist:
                    L.apply_op(p, h)
                    model = L.model_apply(model, h)
                try:
                    res = L.apply_op(p, lop)
                    err = None
                except Exception as e:  # noqa
                    res, err = None, e
                _check_state(H, p, L.model_apply(model, lop), hist + (lop,), res, err)


@contract("foreign_modules_refused", ["C07"], kind="bounded",
          targets=["rv.project:Project.connect", "rv.project:Project.module_index"],
          bound="two projects with 3 modules each (same classes, same indices), every ordered pair of one local and one foreign module, both argument orders, method and operator forms")
def foreign_modules_refused(H, _):
    """Linking modules of different projects raises ModuleOwnershipError and changes no table."""
    for form in ("method", "rshift", "lshift"):
        for i in range(0, 4):
            for j in range(0, 4):
                for local_first in (True, False):
                    p, q = L.new_project(3), L.new_project(3)
                    p.connect(p.modules[1], p.modules[2])
                    q.connect(q.modules[1], q.modules[2])
                    before = (L.tables(p), L.tables(q))
                    a, b = (p.modules[i], q.modules[j]) if local_first else (q.modules[j], p.modules[i])
                    try:
                        if form == "method":
                            p.connect(a, b)
                        elif form == "rshift":
                            a >> b
                        else:
                            b << a
                        err = None
                    except Exception as e:  # noqa
                        err = e
                    w = {"form": form, "local": i, "foreign": j, "local_first": local_first, "error": repr(err)}
                    H.check("refused_with_ownership_error", isinstance(err, ModuleOwnershipError), witness=w)
                    H.check("nothing_changed", (L.tables(p), L.tables(q)) == before, witness=w)
