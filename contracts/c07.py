"""C07 - connecting and disconnecting keep the link tables mutually consistent."""
from __future__ import annotations

from rv.errors import ModuleOwnershipError
from rv.modules.amplifier import Amplifier
from rv.modules.module import DisconnectingModule, ModuleList
from rv.project import Project
from rvproof.contract import contract

from . import links as L

TECHNIQUE = "contract-based deductive verification of the connect step and of list operands (loop invariants) on array-theory link tables of arbitrary size (quantified invariant, z3); operation histories as labelled small-scope bounded stand-in"
LEVEL = "other"
LEVEL_TEXT = (
    "Mixed. (a) Deductive: the single-pair step of Project.connect is verified against the link-table invariant for tables of "
    "ARBITRARY length and content (array-theory encoding of the four parallel lists, contract c07 'connect_step_*', see evidence), "
    "and list operands of 1x2 / 2x1 (quick) and 2x2 (thorough) modules at arbitrary positions with each element optionally negated "
    "('connect_lists_on_heap': the loops of connect() are cut with the loop invariant 'LinksOK and every pair already visited is in its "
    "requested state', proved at every loop head, plus a frame on the tables of all other modules); the operator sugar "
    "(Module / DisconnectingModule / ModuleList __rshift__, __lshift__, __invert__) is verified as a modular caller of connect(): "
    "every path of the six methods against a recording stub of the callee ('operator_sugar_delegates_to_connect'); "
    "(b) bounded: the composition over operation histories, list operands and the operator sugar is an exhaustive small-scope "
    "enumeration of histories run on the real code with the invariant and a reference model evaluated as run-time contracts. "
    "(b) is listed under bounded_parts and is not counted as proved."
)
EXPLANATION = LEVEL_TEXT
ASSUMPTIONS = [
    "small scope for histories: projects with output + 3 modules, all single-pair operations in all three forms and all two-element list operations, depth 3 (quick) / 4 (thorough), de-duplicated on reached state",
    "operator forms covered: p.connect(a, b), a >> b, b << a, a >> ~b, ~a >> b, module >> [list], [ModuleList] >> module, [ModuleList] << ..., with ~ on any element",
    "plain Python lists on the left of >> are not part of the API (list has no __rshift__); ModuleList, which the operators return, is",
]


def _check_state(H, p, model, hist, res, err):
    where = " ; ".join(L.describe_op(o) for o in hist)
    H.check("operation_does_not_raise", err is None, witness={"history": where, "error": repr(err)})
    if err is not None:
        return
    bad = L.links_ok(p)
    H.check("tables_mutually_consistent", bad is None, witness={"history": where, "problem": bad})
    g = L.graph_of(p)
    H.check("connections_equal_requested", g == model,
            witness={"history": where, "have": sorted(g), "want": sorted(model)})
    H.check("out_tables_describe_same_graph", L.graph_of_out(p) == g, witness={"history": where})
    op = hist[-1]
    if op[0] in ("rshift", "lshift"):
        # the operators return their right-hand operand (lists wrapped so that chaining works)
        want = op[2] if op[0] == "rshift" else op[1]
        objs = [p.modules[i] for i, _neg in want]
        if isinstance(res, list):
            ok = isinstance(res, ModuleList) and [getattr(x, "orig", x) if isinstance(x, DisconnectingModule) else x for x in res] == objs
        else:
            r = res.__dict__["orig"] if isinstance(res, DisconnectingModule) else res
            ok = len(objs) == 1 and r is objs[0]
        H.check("operator_returns_right_operand", ok, witness={"history": where})


def _scope(H):
    return (3, 3) if getattr(H, "tier", "quick") == "quick" else (3, 4)


@contract(
    "connect_histories", ["C07"], kind="bounded",
    targets=["rv.project:Project.connect", "rv.project:Project.module_index", "rv.modules.module:Module.__rshift__",
             "rv.modules.module:Module.__lshift__", "rv.modules.module:Module.__invert__",
             "rv.modules.module:ModuleList.__rshift__", "rv.modules.module:ModuleList.__lshift__",
             "rv.modules.module:DisconnectingModule"],
    bound="all histories of single-pair operations (3 forms x connect/disconnect x ordered pairs) up to depth 3 (quick) / 4 (thorough) on output + 3 modules, de-duplicated on state; native evaluation of the invariant and of the reference model after every operation",
)
def connect_histories(H, _):
    """After every operation of every history: no exception, LinksOK holds, the connection set equals
    the reference model (requested pairs connected exactly once, disconnected pairs gone, nothing else
    changed), operators return their right operand."""
    n, depth = _scope(H)
    ops = L.single_ops(n + 1)
    stats = L.explore_histories(n, depth, ops, lambda *a: _check_state(H, *a))
    H.cover(f"states={stats[0]} distinct={stats[1]}")


@contract(
    "connect_list_operands", ["C07"], kind="bounded",
    targets=["rv.project:Project.connect", "rv.modules.module:ModuleList.__rshift__", "rv.modules.module:ModuleList.__lshift__"],
    bound="every reachable state of depth <= 2 single-pair histories, followed by every two-element list operation (method, >>, <<; every ~ pattern); output + 3 modules",
)
def connect_list_operands(H, _):
    """List operands: every pair of the request is honoured even when some pairs of the same request
    are already (dis)connected."""
    n = 3
    singles = [o for o in L.single_ops(n + 1, forms=("method",))]
    lists = L.list_ops(n + 1)
    seen = set()
    frontier = [()]
    for d in range(2 if getattr(H, "tier", "quick") == "quick" else 3):
        nxt = []
        for hist in frontier:
            for op in singles:
                p = L.new_project(n)
                for h in hist + (op,):
                    L.apply_op(p, h)
                key = repr(L.tables(p))
                if key not in seen:
                    seen.add(key)
                    nxt.append(hist + (op,))
        frontier = nxt + ([()] if d == 0 else [])
        for hist in frontier:
            for lop in lists:
                p = L.new_project(n)
                model = set()
                for h in hist:
                    L.apply_op(p, h)
                    model = L.model_apply(model, h)
                try:
                    res = L.apply_op(p, lop)
                    err = None
                except Exception as e:  # noqa
                    res, err = None, e
                _check_state(H, p, L.model_apply(model, lop), hist + (lop,), res, err)


@contract("foreign_modules_refused", ["C07"], kind="bounded",
          targets=["rv.project:Project.connect", "rv.project:Project.module_index"],
          bound="two projects with 3 modules each (same classes, same indices), every ordered pair of one local and one foreign module, both argument orders, method and operator forms")
def foreign_modules_refused(H, _):
    """Linking modules of different projects raises ModuleOwnershipError and changes no table."""
    for form in ("method", "rshift", "lshift"):
        for i in range(0, 4):
            for j in range(0, 4):
                for local_first in (True, False):
                    p, q = L.new_project(3), L.new_project(3)
                    p.connect(p.modules[1], p.modules[2])
                    q.connect(q.modules[1], q.modules[2])
                    before = (L.tables(p), L.tables(q))
                    a, b = (p.modules[i], q.modules[j]) if local_first else (q.modules[j], p.modules[i])
                    try:
                        if form == "method":
                            p.connect(a, b)
                        elif form == "rshift":
                            a >> b
                        else:
                            b << a
                        err = None
                    except Exception as e:  # noqa
                        err = e
                    w = {"form": form, "local": i, "foreign": j, "local_first": local_first, "error": repr(err)}
                    H.check("refused_with_ownership_error", isinstance(err, ModuleOwnershipError), witness=w)
                    H.check("nothing_changed", (L.tables(p), L.tables(q)) == before, witness=w)


# ------------------------------------------------------------------------------- deductive: one step, tables of any size

import z3  # noqa: E402

from rvproof.heap import FIELDS, LinkHeap  # noqa: E402
from rvproof.sym import SymBool  # noqa: E402


def _step_cases(tier):
    out = []
    for op in ("connect", "disconnect_to", "disconnect_from"):
        for alias in ("distinct", "same_module"):
            out.append((f"{op},{alias}", (op, alias)))
    out.append(("foreign_module", ("foreign", "distinct")))
    return out


@contract(
    "connect_step_preserves_invariant", ["C07"], cases=_step_cases, replayable=False, timeout_ms=60000,
    targets=["rv.project:Project.connect"],
)
def connect_step_preserves_invariant(H, case):
    """The real Project.connect(a, b) / connect(a, ~b) / connect(~a, b) on a project with ANY number N of
    modules whose four parallel link tables have ANY lengths and contents satisfying LinksOK (array-
    theory heap, quantified invariant), a and b at arbitrary positions (or the same module):
    ensures every clause of LinksOK afterwards; tables of every module other than a (outgoing) and b
    (incoming) are untouched; the request is honoured at table level: connect appends (ia) to b's
    incoming and (ib) to a's outgoing table unless the pair is already connected, in which case nothing
    changes; disconnect blanks exactly the two mirrored entries or changes nothing when the pair is
    not connected; a module of another project raises ModuleOwnershipError and changes nothing.
    Assumes Project.module_index(m) == m.index for attached modules (invariant IndexOK of C14)."""
    from rv.errors import ModuleOwnershipError
    from rv.modules.module import DisconnectingModule

    op, alias = case
    c = H.pctx
    heap = LinkHeap()
    p = Project()
    other = Project()
    a = Amplifier()
    b = a if alias == "same_module" else Amplifier()
    ia = H.int("ia", 0, None)
    ib = ia if alias == "same_module" else H.int("ib", 0, None)
    c.add(ia.z < heap.N)
    if alias != "same_module":
        c.add(z3.And(ib.z < heap.N, ib.z != ia.z))
    a.index, a.parent = ia, p
    b.index, b.parent = ib, (other if op == "foreign" else p)
    for f in FIELDS:
        setattr(a, f, heap.view(f, ia))
        if b is not a:
            setattr(b, f, heap.view(f, ib))

    def module_index(m):
        if m.parent is not p:
            raise ValueError("not in list")
        return m.index

    p.__dict__["module_index"] = module_index
    for cl in heap.clauses().values():
        c.add(cl)
    old = heap.snapshot()
    frm = DisconnectingModule(a) if op == "disconnect_from" else a
    to = DisconnectingModule(b) if op == "disconnect_to" else b
    exc, _ = H.raises(p.connect, frm, to)
    if op == "foreign":
        H.check("foreign_module_refused", isinstance(exc, ModuleOwnershipError))
        H.check("refusal_changes_nothing", all(heap.tab[f] is old.tab[f] and heap.len[f] is old.len[f] for f in FIELDS))
        return
    H.check("does_not_raise", exc is None)
    for name, cl in heap.clauses().items():
        H.check("LinksOK." + name, SymBool(cl))
    m, k = z3.Ints("m k")
    IN0, INS0, OUT0, OUTS0 = (old.tab[f] for f in FIELDS)
    IN1, INS1, OUT1, OUTS1 = (heap.tab[f] for f in FIELDS)
    nIN0, nOUT0 = old.len["in_links"], old.len["out_links"]
    nIN1, nOUT1 = heap.len["in_links"], heap.len["out_links"]
    H.check("frame.other_incoming_tables_untouched", SymBool(z3.ForAll([m], z3.Implies(
        m != ib.z, z3.And(IN1[m] == IN0[m], INS1[m] == INS0[m], nIN1[m] == nIN0[m])))))
    H.check("frame.other_outgoing_tables_untouched", SymBool(z3.ForAll([m], z3.Implies(
        m != ia.z, z3.And(OUT1[m] == OUT0[m], OUTS1[m] == OUTS0[m], nOUT1[m] == nOUT0[m])))))
    was = z3.Exists([k], z3.And(0 <= k, k < nIN0[ib.z], IN0[ib.z][k] == ia.z))
    if op == "connect":
        H.check("update.already_connected_changes_nothing", SymBool(z3.Implies(was, z3.And(
            IN1 == IN0, INS1 == INS0, OUT1 == OUT0, OUTS1 == OUTS0, nIN1 == nIN0, nOUT1 == nOUT0))))
        H.check("update.new_pair_is_appended_on_both_ends", SymBool(z3.Implies(z3.Not(was), z3.And(
            nIN1[ib.z] == nIN0[ib.z] + 1, nOUT1[ia.z] == nOUT0[ia.z] + 1,
            IN1[ib.z][nIN0[ib.z]] == ia.z, OUT1[ia.z][nOUT0[ia.z]] == ib.z,
            z3.ForAll([k], z3.Implies(z3.And(0 <= k, k < nIN0[ib.z]), z3.And(IN1[ib.z][k] == IN0[ib.z][k], INS1[ib.z][k] == INS0[ib.z][k]))),
            z3.ForAll([k], z3.Implies(z3.And(0 <= k, k < nOUT0[ia.z]), z3.And(OUT1[ia.z][k] == OUT0[ia.z][k], OUTS1[ia.z][k] == OUTS0[ia.z][k])))))))
        H.check("update.pair_connected_afterwards", SymBool(z3.Exists([k], z3.And(0 <= k, k < nIN1[ib.z], IN1[ib.z][k] == ia.z))))
    else:
        H.check("update.absent_pair_changes_nothing", SymBool(z3.Implies(z3.Not(was), z3.And(
            IN1 == IN0, INS1 == INS0, OUT1 == OUT0, OUTS1 == OUTS0, nIN1 == nIN0, nOUT1 == nOUT0))))
        H.check("update.lengths_kept", SymBool(z3.And(nIN1 == nIN0, nOUT1 == nOUT0)))
        H.check("update.pair_gone_afterwards", SymBool(z3.Not(z3.Exists([k], z3.And(0 <= k, k < nIN1[ib.z], IN1[ib.z][k] == ia.z)))))
        H.check("update.every_other_incoming_entry_kept", SymBool(z3.ForAll([k], z3.Implies(
            z3.And(0 <= k, k < nIN0[ib.z], IN0[ib.z][k] != ia.z), z3.And(IN1[ib.z][k] == IN0[ib.z][k], INS1[ib.z][k] == INS0[ib.z][k])))))
        H.check("update.every_other_outgoing_entry_kept", SymBool(z3.ForAll([k], z3.Implies(
            z3.And(0 <= k, k < nOUT0[ia.z], OUT0[ia.z][k] != ib.z), z3.And(OUT1[ia.z][k] == OUT0[ia.z][k], OUTS1[ia.z][k] == OUTS0[ia.z][k])))))
    H.cover("reached")


@contract("connect_step_canary", ["C07"], canary=True, replayable=False, timeout_ms=5000, targets=["rv.project:Project.connect"])
def connect_step_canary(H, _):
    """Vacuity guard for the heap contract: the path condition (the assumed invariant) must not be
    contradictory, and a false post-condition must not be provable."""
    c = H.pctx
    heap = LinkHeap()
    p = Project()
    a, b = Amplifier(), Amplifier()
    ia, ib = H.int("ia", 0, None), H.int("ib", 0, None)
    c.add(z3.And(ia.z < heap.N, ib.z < heap.N, ib.z != ia.z))
    a.index, a.parent, b.index, b.parent = ia, p, ib, p
    for f in FIELDS:
        setattr(a, f, heap.view(f, ia))
        setattr(b, f, heap.view(f, ib))
    p.__dict__["module_index"] = lambda m: m.index
    for cl in heap.clauses().values():
        c.add(cl)
    old = heap.snapshot()
    H.check("canary_assumptions_are_contradictory", SymBool(z3.BoolVal(False)) if False else SymBool(z3.Int("zero!") != z3.Int("zero!")))
    H.call(p.connect, a, b)
    H.check("canary_connect_never_changes_lengths", SymBool(heap.len["in_links"] == old.len["in_links"]))


def _list_cases(tier):
    out = []
    for shape in ("1x2", "2x1", "2x2"):
        for flags in ("connect_all", "disconnect_all", "mixed"):
            out.append((f"{shape},{flags}", (shape, flags)))
    # the same module named twice in one list operand (the last occurrence decides)
    for flags in ("connect_all", "disconnect_all", "mixed", "mixed_rev"):
        out.append((f"1x2r,{flags}", ("1x2r", flags)))
    return out if tier == "thorough" else [c for c in out if c[0] in ("1x2,mixed", "2x1,connect_all", "1x2,disconnect_all", "1x2r,connect_all", "1x2r,mixed")]


@contract(
    "connect_lists_on_heap", ["C07"], cases=_list_cases, replayable=False, timeout_ms=60000, max_paths=600,
    targets=["rv.project:Project.connect"],
)
def connect_lists_on_heap(H, case):
    """List operands on the array-theory heap: connect(F, T) with |F|, |T| in {1, 2}, distinct modules (shape
    '1x2r': the SAME destination named twice, the last occurrence deciding) at
    ARBITRARY positions of a project of ANY size with ANY LinksOK tables, each element optionally
    negated: afterwards LinksOK holds, every requested pair is connected (or gone if either end was
    negated) - also when some pairs of the same request were already (dis)connected - and the incoming
    tables of modules outside T / outgoing tables of modules outside F are untouched."""
    from rv.modules.module import DisconnectingModule

    shape, flags = case
    nf, nt = int(shape[0]), int(shape[2])
    rep = shape.endswith("r")  # both elements of T are the SAME module
    c = H.pctx
    heap = LinkHeap()
    p = Project()
    mods, idx = [], []
    for i in range(nf + (1 if rep else nt)):
        m = Amplifier()
        k = H.int(f"i{i}", 0, None)
        c.add(k.z < heap.N)
        for j in idx:
            c.add(k.z != j.z)
        m.index, m.parent = k, p
        for f in FIELDS:
            setattr(m, f, heap.view(f, k))
        mods.append(m)
        idx.append(k)
    p.__dict__["module_index"] = lambda m: m.index
    for cl in heap.clauses().values():
        c.add(cl)
    old = heap.snapshot()
    neg = {"connect_all": [False] * (nf + nt), "disconnect_all": [True] * nf + [False] * nt,
           "mixed": [False, True, True, False][: nf] + [True, False][: nt],
           "mixed_rev": [False] * nf + [False, True][: nt]}[flags]
    if rep:
        mods = mods[:nf] + [mods[nf]] * nt
        idx = idx[:nf] + [idx[nf]] * nt
    F_ = [DisconnectingModule(m) if neg[i] else m for i, m in enumerate(mods[:nf])]
    T_ = [DisconnectingModule(m) if neg[nf + i] else m for i, m in enumerate(mods[nf:])]

    k = z3.Int("k")

    def pair_claim(fi, ti):
        s, d = idx[fi].z, idx[nf + ti].z
        conn = z3.Exists([k], z3.And(0 <= k, k < heap.len["in_links"][d], heap.tab["in_links"][d][k] == s))
        gone = neg[fi] or neg[nf + ti]
        return ("gone" if gone else "connected"), SymBool(z3.Not(conn) if gone else conn)

    heads = set()

    def invariant(locals_, lineno):
        # loop invariant of both loops of connect(): LinksOK holds at the head of every iteration, and
        # every pair the loops have already dealt with is in its requested state
        # (proved there, then available to the iterations that follow)
        for name, cl in heap.clauses().items():
            H.lemma("loop_invariant.LinksOK." + name, SymBool(cl))
        heads.add(lineno)
        if len(heads) < 2 or lineno == min(heads):
            return
        fi = [i for i, x in enumerate(F_) if x is locals_.get("from_item")]
        ti = [i for i, x in enumerate(T_) if x is locals_.get("to_item")]
        if len(fi) != 1 or len(ti) != 1:
            return
        for a in range(nf):
            for b in range(nt):
                if (a, b) < (fi[0], ti[0]):
                    what, claim = pair_claim(a, b)
                    H.lemma(f"loop_invariant.pair[{a}][{b}].{what}", claim)

    if nf * nt > 2:
        H.loop_invariant("Project.connect", invariant)
    exc, _ = H.raises(p.connect, F_ if nf > 1 else F_[0], T_ if nt > 1 else T_[0])
    H.check("does_not_raise", exc is None)
    for name, cl in heap.clauses().items():
        H.check("LinksOK." + name, SymBool(cl))
    k = z3.Int("k")
    IN1, nIN1 = heap.tab["in_links"], heap.len["in_links"]
    for fi in range(nf):
        for ti in range(nt):
            if rep and ti < nt - 1:
                continue  # the same module again later in the list: the last occurrence decides
            s, d = idx[fi].z, idx[nf + ti].z
            conn = z3.Exists([k], z3.And(0 <= k, k < nIN1[d], IN1[d][k] == s))
            want_gone = neg[fi] or neg[nf + ti]
            H.check(f"pair[{fi}][{ti}].{'gone' if want_gone else 'connected'}", SymBool(z3.Not(conn) if want_gone else conn))
    m_ = z3.Int("m")
    tset = [idx[nf + ti].z for ti in range(nt)]
    fset = [idx[fi].z for fi in range(nf)]
    H.check("frame.incoming_tables_outside_T_untouched", SymBool(z3.ForAll([m_], z3.Implies(
        z3.And(*[m_ != t for t in tset]), z3.And(heap.tab["in_links"][m_] == old.tab["in_links"][m_], heap.tab["in_link_slots"][m_] == old.tab["in_link_slots"][m_],
                                                 heap.len["in_links"][m_] == old.len["in_links"][m_])))))
    H.check("frame.outgoing_tables_outside_F_untouched", SymBool(z3.ForAll([m_], z3.Implies(
        z3.And(*[m_ != f for f in fset]), z3.And(heap.tab["out_links"][m_] == old.tab["out_links"][m_], heap.tab["out_link_slots"][m_] == old.tab["out_link_slots"][m_],
                                                 heap.len["out_links"][m_] == old.len["out_links"][m_])))))
    H.cover("reached")


@contract("chained_list_operands", ["C07"], kind="bounded",
          targets=["rv.modules.module:ModuleList.__rshift__", "rv.modules.module:ModuleList.__lshift__", "rv.modules.module:Module.__rshift__", "rv.modules.module:Module.__lshift__"],
          bound="four chains over a project with output + 6 modules, natively")
def chained_list_operands(H, _):
    """Chaining keeps working through list operands: `a >> [b, c] >> [d, e] >> f` and the `<<` mirror
    connect every pair of neighbouring stages (and nothing else), because each operator hands on a
    ModuleList; the tables stay consistent."""
    def fresh():
        p = Project()
        return p, [p.new_module(Amplifier) for _ in range(6)]

    p, (a, b, c, d, e, f) = fresh()
    res = a >> [b, c] >> [d, e] >> f
    want = {(a.index, b.index), (a.index, c.index)} | {(x.index, y.index) for x in (b, c) for y in (d, e)} | {(d.index, f.index), (e.index, f.index)}
    H.check("rshift_chain_connects_neighbouring_stages", L.graph_of(p) == want and L.links_ok(p) is None, witness={"have": sorted(L.graph_of(p)), "want": sorted(want)})
    H.check("rshift_chain_returns_last_operand", res is f)
    p, (a, b, c, d, e, f) = fresh()
    res = f << [d, e] << [b, c] << a
    H.check("lshift_chain_connects_neighbouring_stages", L.graph_of(p) == want and L.links_ok(p) is None, witness={"have": sorted(L.graph_of(p)), "want": sorted(want)})
    p, (a, b, c, d, e, f) = fresh()
    mid = a >> [b, c]
    H.check("list_result_is_chainable", isinstance(mid, ModuleList) and isinstance(mid >> [d, e], ModuleList) and isinstance(mid << [f], ModuleList))
    p, (a, b, c, d, e, f) = fresh()
    a >> [b, c] >> [d, e]
    a >> [b, ~c] >> [~d, e]
    H.check("negated_elements_inside_chained_lists", L.links_ok(p) is None, witness={"have": sorted(L.graph_of(p))})


# ---------------------------------------------------------------------------------------------
# The operator sugar as modular callers of Project.connect: every path of the six dunder methods is
# interpreted against a recording stub of the callee, so that the deductive contracts of connect()
# (connect_step_*, connect_lists_on_heap) carry over to `>>`, `<<` and `~` without a history search.


def _sugar_cases(tier):
    out = []
    for recv in ("module", "negated_module", "module_list"):
        for op in ("rshift", "lshift"):
            for other in ("module", "negated_module", "plain_list", "module_list", "mixed_list", "empty_list"):
                out.append((f"{recv},{op},{other}", (recv, op, other)))
    return out


@contract(
    "operator_sugar_delegates_to_connect", ["C07"], cases=_sugar_cases,
    targets=["rv.modules.module:Module.__rshift__", "rv.modules.module:Module.__lshift__", "rv.modules.module:Module.__invert__",
             "rv.modules.module:DisconnectingModule.__rshift__", "rv.modules.module:DisconnectingModule.__lshift__",
             "rv.modules.module:DisconnectingModule.__invert__", "rv.modules.module:DisconnectingModule.__getattr__",
             "rv.modules.module:ModuleList.__rshift__", "rv.modules.module:ModuleList.__lshift__"],
)
def operator_sugar_delegates_to_connect(H, case):
    """Callee Project.connect is replaced by a stub that records its arguments (its own contract is verified
    separately).  ensures for receiver x (a module, ~module or ModuleList) and operand y (a module, ~module, a
    plain list with or without negated elements, a ModuleList, an empty list): `x >> y` makes exactly one call
    connect(x, y) and `x << y` exactly one call connect(y, x) - the very objects, so the callee sees every
    negation - on the project the receiver belongs to; the result is y itself, or for a list operand a ModuleList
    of the same project holding the same elements in the same order (chaining); `~m` wraps m, `~~m` is m, the
    wrapper reads and writes through to the module; no link table is touched by the sugar itself."""
    recv_kind, op, other_kind = case
    p = L.new_project(4)
    m1, m2, m3, m4 = p.modules[1:5]
    calls = []

    def stub(frm, to):
        calls.append((frm, to))

    p.connect = stub  # instance attribute shadows the method for `self.parent.connect`
    neg2 = H.call(m2.__invert__)
    H.check("invert_wraps_the_module", type(neg2) is DisconnectingModule and neg2.__dict__["orig"] is m2)
    H.check("double_invert_is_the_module", H.call(neg2.__invert__) is m2)
    H.check("wrapper_reads_through", H.getattr(neg2, "index") == m2.index and H.getattr(neg2, "parent") is p)
    recv = {"module": m1, "negated_module": DisconnectingModule(m1), "module_list": ModuleList(p, [m1, m4])}[recv_kind]
    other = {"module": m2, "negated_module": neg2, "plain_list": [m2, m3], "module_list": ModuleList(p, [m2, m3]),
             "mixed_list": [m2, DisconnectingModule(m3)], "empty_list": []}[other_kind]
    elems = list(other) if isinstance(other, list) else None
    before = L.tables(p)
    fn = type(recv).__rshift__ if op == "rshift" else type(recv).__lshift__
    res = H.call(fn, recv, other)
    H.check("exactly_one_connect_call", len(calls) == 1)
    if len(calls) == 1:
        frm, to = calls[0]
        want = (recv, other) if op == "rshift" else (other, recv)
        H.check("connect_called_with_the_operands_in_arrow_direction", frm is want[0] and to is want[1])
    if elems is None:
        H.check("returns_right_operand", res is other)
    else:
        H.check("returns_module_list_of_same_project", type(res) is ModuleList and res.parent is p)
        H.check("returned_list_holds_the_operand_elements", isinstance(res, list) and len(res) == len(elems) and all(a is b for a, b in zip(res, elems)))
    H.check("sugar_touches_no_link_table", L.tables(p) == before)
    H.cover("reached")
