"""C13 - generated module metadata agrees with the YAML format specification (ground obligations)."""
from __future__ import annotations

import enum
import keyword

from rv.controller import CompactRange, Controller, DependentRange, NoOffsetRange, Range, WarnOnlyRange
from rv.modules import MODULE_CLASSES
from rvproof.contract import contract
from spec import yamlspec

from . import common as K

TECHNIQUE = "ground contract obligations decided by evaluation (finite, exhaustive); generator re-run as translation validation in the thorough tier"
LEVEL = "proof"
EXHAUSTIVE = True
ASSUMPTIONS = [
    "finite ground domain: every (type, controller|option|enum member, field) triple is one obligation decided by evaluation on the imported classes (back end 'eval'); the enumeration is complete",
    "yaml.safe_load and the import system are trusted",
]
EXPLANATION = (
    "The class tables ModuleMeta built at import (MODULE_CLASSES, cls.controllers, cls.options, nested enums) are compared "
    "field by field with the table computed from specs/fileformat.yaml; each comparison is a ground obligation. "
    "The thorough tier additionally re-renders every base class with the real generator and compares the text "
    "(translation validation, reported separately)."
)


def _spec_cases(tier):
    return [(k, k) for k in sorted(yamlspec.module_specs())]


@contract("registry_bijection", ["C13"], targets=["rv.modules.meta:ModuleMeta.__init_registry", "rv.modules:MODULE_CLASSES"], kind="ground")
def registry_bijection(H, _):
    """Exactly one class per specified type name, and no class the specification lacks."""
    specs = yamlspec.spec_by_mtype()
    H.check("same_number_of_types", len(specs) == len(yamlspec.module_specs()))
    for mtype in specs:
        H.check(f"registered[{mtype}]", mtype in MODULE_CLASSES, witness=mtype)
    for mtype, cls in MODULE_CLASSES.items():
        H.check(f"specified[{mtype}]", mtype in specs, witness=mtype)
        H.check(f"class_mtype[{mtype}]", cls.mtype == mtype)
    H.check("classes_distinct", len({id(c) for c in MODULE_CLASSES.values()}) == len(MODULE_CLASSES))


def _enum_table(e):
    return {m.name: m.value for m in e}


@contract(
    "class_matches_spec", ["C13"],
    targets=["rv.modules.meta:ModuleMeta.__init_controllers", "rv.modules.meta:ModuleMeta.__init_options",
             "rv.modules.base.*:Base<Type> (generated tables)"],
    cases=_spec_cases, kind="ground",
)
def class_matches_spec(H, key):
    spec = yamlspec.module_specs()[key]
    cls = MODULE_CLASSES.get(spec.mtype)
    H.check("registered", cls is not None)
    if cls is None:
        return
    H.check("group", cls.mgroup == spec.group, witness=(cls.mgroup, spec.group))
    H.check("default_flags", cls.default_flags == spec.default_flags, witness=(cls.default_flags, spec.default_flags))
    H.check("initial_flags", cls.flags == spec.default_flags)
    # enums
    for ename, members in spec.enums.items():
        e = getattr(cls, ename, None)
        H.check(f"enum[{ename}]", isinstance(e, type) and issubclass(e, enum.IntEnum) and _enum_table(e) == members,
                witness=ename)
    # controllers: order and numbering are what maps the n-th stored value to a controller
    attached = [(n, c) for n, c in cls.controllers.items() if c._attached and isinstance(c, Controller)
                and not n.startswith("user_defined_")]
    H.check("controller_names_in_order", [n for n, _ in attached] == [c.name for c in spec.controllers],
            witness=([n for n, _ in attached], [c.name for c in spec.controllers]))
    H.check("all_controllers_order", list(cls.controllers)[: len(spec.controllers)] == [c.name for c in spec.controllers])
    for i, cs in enumerate(spec.controllers, 1):
        c = cls.controllers.get(cs.name)
        H.check(f"ctl[{cs.name}].exists", c is not None)
        if c is None:
            continue
        H.check(f"ctl[{cs.name}].number", c.number == i, witness=(c.number, i))
        H.check(f"ctl[{cs.name}].name", c.name == cs.name)
        t = c.value_type
        if cs.kind in ("range", "compact", "no_offset"):
            want = {"range": Range, "compact": CompactRange, "no_offset": NoOffsetRange}[cs.kind]
            H.check(f"ctl[{cs.name}].kind", type(t) is want, witness=(type(t).__name__, want.__name__))
            H.check(f"ctl[{cs.name}].bounds", isinstance(t, Range) and (t.min, t.max) == (cs.min, cs.max),
                    witness=(getattr(t, "min", None), getattr(t, "max", None), cs.min, cs.max))
            H.check(f"ctl[{cs.name}].default", c.default == cs.default and type(c.default) is int, witness=(c.default, cs.default))
        elif cs.kind == "enum":
            ok = isinstance(t, type) and issubclass(t, enum.IntEnum) and t is getattr(cls, cs.enum, None)
            H.check(f"ctl[{cs.name}].kind", ok)
            H.check(f"ctl[{cs.name}].members", ok and _enum_table(t) == cs.members)
            H.check(f"ctl[{cs.name}].default", ok and isinstance(c.default, t) and c.default.name == cs.default,
                    witness=(repr(c.default), cs.default))
        elif cs.kind == "bool":
            H.check(f"ctl[{cs.name}].kind", t is bool)
            H.check(f"ctl[{cs.name}].default", c.default is bool(cs.default), witness=(c.default, cs.default))
        elif cs.kind == "dependent":
            ok = isinstance(t, DependentRange)
            H.check(f"ctl[{cs.name}].kind", ok)
            if ok:
                H.check(f"ctl[{cs.name}].unit", t.ctl_name == cs.depends_on)
                unit_enum = cls.controllers[cs.depends_on].value_type
                table = {k.name: (type(r), r.min, r.max) for k, r in t.range_map.items()}
                want = {k: (WarnOnlyRange, lo, hi) for k, (lo, hi) in cs.ranges.items()}
                H.check(f"ctl[{cs.name}].range_table", table == want and all(isinstance(k, unit_enum) for k in t.range_map),
                        witness=(str(table), str(want)))
                H.check(f"ctl[{cs.name}].fallback", type(t.default) is WarnOnlyRange and (t.default.min, t.default.max) == cs.fallback)
                H.check(f"ctl[{cs.name}].default", c.default == cs.default)
    extra = [n for n, c in cls.controllers.items() if n not in {c.name for c in spec.controllers}]
    if spec.mtype == "MetaModule":
        H.check("extra_controllers", extra == [f"user_defined_{i}" for i in range(1, 97)])
    elif spec.mtype == "Sampler":
        H.check("extra_controllers_detached", all(not cls.controllers[n]._attached for n in extra), witness=extra)
    else:
        H.check("no_extra_controllers", extra == [], witness=extra)
    # options
    H.check("option_names", sorted(cls.options) == sorted(o.name for o in spec.options),
            witness=(sorted(cls.options), sorted(o.name for o in spec.options)))
    if spec.options:
        H.check("options_chnm", cls.options_chnm == spec.options_chnm, witness=(cls.options_chnm, spec.options_chnm))
    for osp in spec.options:
        o = cls.options.get(osp.name)
        H.check(f"opt[{osp.name}].exists", o is not None)
        if o is None:
            continue
        H.check(f"opt[{osp.name}].name", o.name == osp.name)
        H.check(f"opt[{osp.name}].byte_bit_size", (o.byte, o.bit, o.size) == (osp.byte, osp.bit, osp.size),
                witness=((o.byte, o.bit, o.size), (osp.byte, osp.bit, osp.size)))
        H.check(f"opt[{osp.name}].number", o.number == osp.number, witness=(o.number, osp.number))
        H.check(f"opt[{osp.name}].inverted", bool(o.inverted) == osp.inverted)
        H.check(f"opt[{osp.name}].exclusive_of", list(o.exclusive_of) == osp.exclusive_of)
        H.check(f"opt[{osp.name}].bounds", (o.min, o.max) == (osp.min, osp.max), witness=((o.min, o.max), (osp.min, osp.max)))
        if osp.enum:
            e = getattr(cls, osp.enum, None)
            H.check(f"opt[{osp.name}].default", e is not None and isinstance(o.default, e) and o.default.name == yamlspec.enumname(osp.default),
                    witness=(repr(o.default), osp.default))
        else:
            H.check(f"opt[{osp.name}].default", o.default == osp.default and type(o.default) is type(osp.default),
                    witness=(o.default, osp.default))


@contract("enumname_injective", ["C13"], targets=["genrv.tools.generate:enumname"], cases=_spec_cases, kind="ground")
def enumname_injective(H, key):
    """The generator's key mangling maps the keys of every enum to distinct valid identifiers."""
    d = yamlspec.load()["module_types"][key]
    for ename, e in (d.get("enums") or {}).items():
        names = [yamlspec.enumname(k) for k in e]
        H.check(f"injective[{ename}]", len(set(names)) == len(names), witness=names)
        H.check(f"identifiers[{ename}]", all(n.isidentifier() and not keyword.iskeyword(n) for n in names), witness=names)


def _regen_case(tier):
    return [("all", None)] if tier == "thorough" else []


@contract(
    "regenerate_and_compare", ["C13"], targets=["genrv.codegen.python.gen:PythonGenerator.run",
                                                  "genrv/codegen/python/base_module.py.jinja2"],
    cases=_regen_case, kind="bounded", tiers=("thorough",),
    bound="translation validation: the real generator is run into a scratch directory and its output compared byte for byte with src/python/rv/modules/base/*.py (not counted as proof)",
)
def regenerate_and_compare(H, _):
    import filecmp
    import os
    import shutil
    import subprocess
    import sys
    import tempfile

    repo = os.environ.get("RV_REPO", "/repo")
    tmp = tempfile.mkdtemp(prefix="rvgen")
    try:
        cfg = os.path.join(tmp, "cfg.yaml")
        with open(cfg, "w") as f:
            f.write(f"- generator: genrv.codegen.python.gen:PythonGenerator\n  spec_base: {repo}/specs\n  dest_base: {tmp}/out\n")
        env = dict(os.environ, PYTHONPATH=os.path.join(repo, "src", "python"))
        p = subprocess.run([sys.executable, "-m", "genrv.tools.generate", "--config", cfg], env=env,
                           capture_output=True, text=True, timeout=600)
        H.check("generator_runs", p.returncode == 0, witness=p.stderr[-500:])
        gen = os.path.join(tmp, "out", "modules", "base")
        cur = os.path.join(repo, "src", "python", "rv", "modules", "base")
        for fn in sorted(os.listdir(gen)) if os.path.isdir(gen) else []:
            same = os.path.exists(os.path.join(cur, fn)) and filecmp.cmp(os.path.join(gen, fn), os.path.join(cur, fn), shallow=False)
            H.check(f"identical[{fn}]", same, witness=fn)
        for fn in sorted(os.listdir(cur)):
            if fn.endswith(".py") and fn != "__init__.py":
                H.check(f"generated[{fn}]", os.path.exists(os.path.join(gen, fn)), witness=fn)
    finally:
        shutil.rmtree(tmp, ignore_errors=True)


@contract("metadata_unchanged_by_use", ["C13"], kind="bounded",
          targets=["rv.modules.meta:ModuleMeta", "rv.readers.module:ModuleReader.process_STYP", "rv.modules.metamodule:MetaModule.MappingArray.update_user_defined_controllers"],
          bound="after constructing every class, loading every fixture, round-tripping a MetaModule whose user-defined controllers map onto negative-minimum / enum / bool controllers, and attempting to load a stream with an unknown module type: the complete class-vs-spec comparison is repeated (native)")
def metadata_unchanged_by_use(H, _):
    """The class tables are what the specification says not only at import time but also after the
    library has been used (no load, construction or mapping may rewrite class-level metadata or
    register a class the specification lacks)."""
    import glob
    import io
    import os

    from rv.modules.amplifier import Amplifier
    from rv.modules.metamodule import MetaModule
    from rv.readers.reader import read_sunvox_file
    from rv.synth import Synth
    from spec import format as F

    for cls in K.module_classes():
        cls()
    root = os.path.join(os.environ.get("RV_REPO", "/repo"), "tests", "files")
    for f in sorted(glob.glob(os.path.join(root, "*.sun*"))):
        read_sunvox_file(f)
    mm = MetaModule()
    amp = mm.project.new_module(Amplifier)
    mm.user_defined_controllers = 3
    names = list(Amplifier.controllers)
    for i, n in enumerate(("balance", "inverse", "bipolar_dc_offset")):
        mm.mappings.values[i] = MetaModule.Mapping((amp.index, names.index(n)))
    mm.update_user_defined_controllers()
    mm.clone().clone()
    unknown = b"".join(F.frame(c, p) for c, p in [(b"SSYN", b""), (b"VERS", F.enc_version((2, 1, 2, 1))), (b"SFFF", F.enc_u32(0x49)),
                                                   (b"SNAM", F.enc_name32("x")), (b"STYP", F.enc_cstring("Future Synth")), (b"SEND", b"")])
    try:
        read_sunvox_file(io.BytesIO(unknown))
        H.check("unknown_module_type_is_not_silently_accepted", False, witness="loaded a module of a type the specification lacks")
    except Exception:  # noqa
        pass
    registry_bijection(H, None)
    for key in sorted(yamlspec.module_specs()):
        class_matches_spec(H, key)
