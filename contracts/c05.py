"""C05 - re-saving is stable (load/save idempotent) and saving is pure."""
from __future__ import annotations

from rv.controller import DependentRange
from rvproof.contract import contract

from . import common as K

LEVEL = "proof"
ASSUMPTIONS = [
    "the statement 'Y = save(load(X)) => save(load(Y)) == Y' is decomposed codec by codec into D(E(D(x))) == D(x) "
    "for every payload x the reader accepts, plus determinism and purity of the writers; the composition over the "
    "chunk sequence is the sequence contract of C01",
    "'loadable' excludes stored enum values that are not members (the load itself raises ValueError)",
]
EXPLANATION = (
    "Per-codec fix-point obligations (controller values for ALL int32 stored values, MIDI-in word, sync flags, "
    "options, note cells, link tables, names) generated from the real reader/writer functions, plus frame "
    "obligations showing that the writers modify nothing."
)


def _attached_controller_cases(tier):
    return K.controller_cases(tier)


@contract(
    "cval_fixpoint", ["C05", "C09"],
    targets=["rv.modules.module:Module.set_raw", "rv.modules.module:Module.get_raw",
             "rv.controller:Range.from_raw_value", "rv.controller:Range.to_raw_value",
             "rv.controller:Range.__call__", "rv.controller:Range.validate",
             "rv.errors:raise_or_warn_controller_value_validation"],
    cases=_attached_controller_cases,
)
def cval_fixpoint(H, case):
    """requires lenient mode (as during read_sunvox_file), any stored int32 value `raw`, load succeeds.
    ensures r1 = get_raw(set_raw(raw)) fits '<i' and is a fix-point: loading r1 into a fresh module
    gives the same user value and the same stored value again (hence n cycles by induction)."""
    cname, name = case
    cls = K.class_by_name(cname)
    ctl = cls.controllers[name]
    m = cls()
    m2 = cls()
    if isinstance(ctl.value_type, DependentRange):
        K.unit_cases(H, m, ctl)
        un = ctl.value_type.ctl_name
        m2.controller_values[un] = m.controller_values[un]
        m2.controllers_loaded.add(un)
    raw = H.int("raw", *K.I32)
    K.lenient()
    exc, _ = H.raises(m.set_raw, name, raw)
    if exc is not None:
        H.check("only_enum_value_errors_abort_a_load", isinstance(exc, ValueError) and K.is_enum_type(ctl.value_type))
        return
    r1 = H.call(m.get_raw, name)
    H.check("resaved_value_fits_int32", H.and_(r1 >= K.I32[0], r1 <= K.I32[1]))
    exc2, _ = H.raises(m2.set_raw, name, r1)
    H.check("resaved_value_loads", exc2 is None)
    if exc2 is not None:
        return
    r2 = H.call(m2.get_raw, name)
    H.check("stored_value_is_fixpoint", r2 == r1)
    H.check("user_value_is_fixpoint", H.eq(m2.controller_values[name], m.controller_values[name]))
    H.cover("reached")


@contract(
    "cval_fixpoint_canary", ["C05"], targets=["rv.modules.module:Module.set_raw"], canary=True,
    cases=lambda tier: [("Amplifier.inverse", ("Amplifier", "inverse"))],
)
def cval_fixpoint_canary(H, case):
    """A bool controller normalises any non-zero stored value to 1, so 'first save equals input' is false."""
    cls = K.class_by_name(case[0])
    m = cls()
    raw = H.int("raw", *K.I32)
    K.lenient()
    H.call(m.set_raw, case[1], raw)
    H.check("canary_first_cycle_identity", H.call(m.get_raw, case[1]) == raw)


# ------------------------------------------------------------------------------- purity / determinism

from rv.project import Project  # noqa: E402
from rv.synth import Synth  # noqa: E402

from . import rw  # noqa: E402


def _purity_cases(tier):
    out = []
    for c in K.module_classes():
        if c.mtype == "Output":
            continue
        out.append((K.cls_id(c), K.cls_id(c)))
    return out


def _build_any(H, cname):
    from .c01 import _build_single

    if cname == "MetaModule":
        from .c15 import build_metamodule

        m = build_metamodule(H, 5)
        # a stored user-controller value that differs from the embedded controller it is mapped to
        return m
    m = _build_single(H, cname, in_project=True)
    rw.sym_payload(H, m)
    return m


@contract(
    "saving_is_pure_and_deterministic", ["C05", "C17"], cases=_purity_cases,
    targets=["rv.synth:Synth.chunks", "rv.project:Project.chunks", "rv.container:Container.write_to",
             "rv.modules.module:Module.iff_chunks", "rv.modules.*:<Type>.specialized_iff_chunks",
             "rv.modules.metamodule:MetaModule.recompute_controller_attachment"],
)
def saving_is_pure_and_deterministic(H, cname):
    """For a module with symbolic state (all fields, controllers, options, payload), inside a project:
    ensures: the structural snapshot of the whole project (every attribute reachable from it) is the
    same before and after Project.write_to and after Synth(module).write_to (frame: the writers modify
    nothing), and writing twice yields identical bytes (determinism)."""
    m = _build_any(H, cname)
    p = Project()
    p.attach_module(m)
    before = K.snapshot(p, depth=12)
    data1 = rw.write_container(H, p)
    mid = K.snapshot(p, depth=12)
    H.check("project_save_changes_nothing", H.eq(mid, before))
    data2 = rw.write_container(H, p)
    H.check("second_project_save_identical_bytes", H.eq(data2, data1))
    s1 = rw.write_container(H, Synth(m))
    after = K.snapshot(p, depth=12)
    H.check("synth_save_changes_nothing", H.eq(after, before))
    s2 = rw.write_container(H, Synth(m))
    H.check("second_synth_save_identical_bytes", H.eq(s2, s1))
    H.cover("reached")


def _resave_cases(tier):
    out = []
    for c in K.module_classes():
        if c.mtype == "Output":
            continue
        out.append((K.cls_id(c), K.cls_id(c)))
    return out


@contract(
    "resave_is_byte_stable", ["C05"], cases=_resave_cases,
    targets=["rv.synth:Synth.chunks", "rv.readers.reader:read_sunvox_file", "rv.readers.module:ModuleReader.process_*",
             "rv.modules.module:Module.get_raw", "rv.modules.module:Module.set_raw", "rv.modules.*:<Type>.load_chunk",
             "rv.modules.metamodule:UserDefinedProxy.instance_value_type"],
)
def resave_is_byte_stable(H, cname):
    """Whole-object statement of the property: X = bytes of a module with symbolic state;
    Y = save(load(X)); Z = save(load(Y)).  ensures Z == Y byte for byte (for every value of the state)."""
    from rvproof.sym import PathInfeasible  # noqa

    if cname == "Sampler":
        from .c16 import VARIANTS, build_sampler

        m = build_sampler(H, VARIANTS["three_slots"])
    else:
        m = _build_any(H, cname)
    x = rw.write_container(H, Synth(m))
    m1 = rw.read_back(H, x).module
    y = rw.write_container(H, Synth(m1))
    m2 = rw.read_back(H, y).module
    z = rw.write_container(H, Synth(m2))
    H.check("second_cycle_bytes_equal_first_cycle_bytes", H.eq(z, y))
    H.check("same_length", len(z) == len(y))
    H.cover("reached")


# ------------------------------------------------------------------------------- fixtures (bounded)


def _fixture_cases(tier):
    from .c04 import _fixture_cases as fc

    return fc(tier)


def _cycle(data):
    import io

    from rv.readers.reader import read_sunvox_file

    obj = read_sunvox_file(io.BytesIO(data))
    f = io.BytesIO()
    obj.write_to(f)
    return obj, f.getvalue()


def _mutations(data):
    """The fixture itself plus copies whose CVAL payloads hold out-of-range stored values."""
    import struct

    from spec import format as F

    yield "as shipped", data
    chunks = F.parse_stream(data)
    cv = [i for i, c in enumerate(chunks) if bytes(c[0]) == b"CVAL" and len(c[1]) == 4]
    if cv:
        for label, val in (("every CVAL = 0x7FFFFFFF", 0x7FFFFFFF), ("every CVAL = -1", -1), ("every CVAL = 70000", 70000)):
            edited = [(cid, struct.pack("<i", val) if i in cv else payload) for i, (cid, payload) in enumerate(chunks)]
            yield label, b"".join(F.frame(bytes(cid), bytes(payload)) for cid, payload in edited)
    # note bytes: every PDTA payload filled with a byte pattern; option bytes: every short module chunk
    # payload (CHDT of at most 8 bytes, which is where option records live) filled likewise
    for label, cid_sel, fill in (("every PDTA byte = 0xFF", b"PDTA", 0xFF), ("every PDTA byte = 0x7F", b"PDTA", 0x7F), ("every PDTA byte = 0x81", b"PDTA", 0x81),
                                 ("every short CHDT byte = 0xFF", b"CHDT", 0xFF), ("every short CHDT byte = 0x01", b"CHDT", 0x01)):
        hit = [i for i, c in enumerate(chunks) if bytes(c[0]) == cid_sel and len(c[1]) > 0 and (cid_sel == b"PDTA" or len(c[1]) <= 8)]
        if hit:
            edited = [(cid, bytes([fill]) * len(payload) if i in hit else payload) for i, (cid, payload) in enumerate(chunks)]
            yield label, b"".join(F.frame(bytes(cid), bytes(payload)) for cid, payload in edited)


@contract(
    "fixtures_resave_stable", ["C05"], kind="bounded", cases=_fixture_cases,
    targets=["rv.readers.reader:read_sunvox_file", "rv.container:Container.write_to", "rv.modules.sampler:Sampler.specialized_iff_chunks",
             "rv.modules.sampler:Sampler.load_chunk", "rv.modules.module:Module.load_options"],
    bound="all shipped fixture files, as shipped, with every 4-byte CVAL payload replaced by 0x7FFFFFFF, -1 and 70000, with every note byte (PDTA) and every option-record byte (CHDT of at most 8 bytes) overwritten by fixed byte patterns; three load/save cycles in ONE process (state kept by classes would accumulate), natively",
)
def fixtures_resave_stable(H, path):
    """X = fixture bytes; Y = save(load(X)); loading Y and saving again yields exactly Y, also on the
    third cycle and although the same file has been loaded before in this process; saving the same
    loaded object twice (with another load of the file in between) yields identical bytes."""
    import os

    data = open(path, "rb").read()
    for label, x in _mutations(data):
        w = {"file": os.path.basename(path), "variant": label}
        try:
            obj1, y = _cycle(x)
        except Exception as e:  # noqa - not loadable (e.g. an enum controller with a non-member value): outside the property
            if label == "as shipped":
                H.check("fixture_loads", False, witness=dict(w, error=repr(e)))
            continue
        try:
            _obj2, z = _cycle(y)
            _obj3, z2 = _cycle(z)
        except Exception as e:  # noqa
            H.check("resaved_file_loads_again", False, witness=dict(w, error=repr(e)))
            continue
        H.check("second_cycle_equals_first", z == y, witness=dict(w, len_y=len(y), len_z=len(z)))
        H.check("third_cycle_equals_first", z2 == y, witness=dict(w, len_y=len(y), len_z=len(z2)))
        import io

        f = io.BytesIO()
        obj1.write_to(f)
        H.check("saving_the_same_object_again_gives_the_same_bytes", f.getvalue() == y, witness=dict(w, len_first=len(y), len_again=len(f.getvalue())))


def _link_mutation_cases(tier):
    return [("fan_out_with_freed_slot", "a"), ("fan_in_cycle", "b")] + [(n, p) for n, p in _fixture_cases(tier) if n.endswith(".sunvox")]


def _generated_link_project(kind):
    import io

    import rv.api  # noqa
    from rv.modules.amplifier import Amplifier
    from rv.modules.generator import Generator
    from rv.project import Project

    p = Project()
    s = p.new_module(Generator)
    a, b, c = (p.new_module(Amplifier) for _ in range(3))
    if kind == "a":
        s >> a
        s >> b
        s >> c
        a >> p.output
        b >> p.output
        c >> b
        s >> ~b
    else:
        s >> c
        s >> a
        a >> b
        b >> a
        c >> p.output
        a >> p.output
    f = io.BytesIO()
    p.write_to(f)
    return f.getvalue()


@contract(
    "link_bytes_mutated_resave_stable", ["C05"], kind="bounded", cases=_link_mutation_cases,
    targets=["rv.readers.module:ModuleReader.process_SLNK", "rv.readers.module:ModuleReader.process_SLnK",
             "rv.readers.sunvox:SunVoxReader.process_end_of_file", "rv.project:Project.chunks"],
    bound="two generated projects that carry explicit slot chunks and every .sunvox fixture; each entry of each SLNK / SLnK chunk replaced in turn by "
          "0, 1, 2, -1, -2, (number of modules - 1), (number of modules) [small values only: a huge slot number makes the loader allocate that many "
          "entries]; files the loader rejects are outside the property; three load/save cycles, natively",
)
def link_bytes_mutated_resave_stable(H, src):
    """Fixtures / generated files whose link bytes are mutated: when X still loads, Y = save(load(X))
    is a fix-point of load/save (second and third cycle give Y again)."""
    import struct

    from spec import format as F

    data = _generated_link_project(src) if src in ("a", "b") else open(src, "rb").read()
    chunks = [(bytes(c), bytes(d)) for c, d in F.parse_stream(data)]
    nmods = sum(1 for c, _d in chunks if c == b"SEND")
    links = [i for i, (c, d) in enumerate(chunks) if c in (b"SLNK", b"SLnK") and d]
    for k, i in enumerate(links):
        n = len(chunks[i][1]) // 4
        vals = list(struct.unpack("<%di" % n, chunks[i][1]))
        for e in range(n):
            for v in sorted({0, 1, 2, -1, -2, nmods - 1, nmods}):
                if v == vals[e]:
                    continue
                nv = list(vals)
                nv[e] = v
                edited = chunks[:i] + [(chunks[i][0], struct.pack("<%di" % n, *nv))] + chunks[i + 1:]
                x = b"".join(F.frame(c, d) for c, d in edited)
                what = f"{chunks[i][0].decode()}#{k}[{e}]:{vals[e]}->{v}"
                try:
                    _o, y = _cycle(x)
                except Exception:  # noqa - X is not loadable (or not savable): outside the property
                    continue
                try:
                    _o, z = _cycle(y)
                    _o, z2 = _cycle(z)
                    ok = z == y and z2 == y
                    w = {"mutation": what, "len_y": len(y), "len_z": len(z), "len_z2": len(z2)}
                except Exception as ex:  # noqa
                    ok = False
                    w = {"mutation": what, "error": repr(ex)}
                H.check(f"resave_is_fixpoint[{what}]", ok, witness=w)
