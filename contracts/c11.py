"""C11 - module options pack into disjoint bits and read back exactly."""
from __future__ import annotations

from rv.modules.module import Chunk
from rvproof.contract import contract
from spec import yamlspec

from . import common as K

LEVEL = "proof"
ASSUMPTIONS = [
    "representable option values: booleans for 1-bit options, integers 0..2^size-1 otherwise (all symbolic, all options of a class simultaneously)",
    "declared bounds / inversion / exclusivity are taken from specs/fileformat.yaml, not from the generated classes",
]


def _option_classes():
    return [c for c in K.module_classes() if c.options]


def _class_cases(tier):
    return [(K.cls_id(c), K.cls_id(c)) for c in _option_classes()]


def _option_cases(tier):
    return [(f"{K.cls_id(c)}.{o}", (K.cls_id(c), o)) for c in _option_classes() for o in c.options]


def _sym_stored(H, opt):
    if opt.size == 1:
        return H.bool(f"opt:{opt.name}")
    return H.int(f"opt:{opt.name}", 0, 2**opt.size - 1)


@contract("option_bits_disjoint", ["C11"], targets=["rv.option:Option (class tables)"], cases=_class_cases, kind="ground")
def option_bits_disjoint(H, cname):
    """No two options of a class share a bit of the options record; every option fits its byte."""
    cls = K.class_by_name(cname)
    used = {}
    for name, o in cls.options.items():
        H.check(f"fits_in_byte[{name}]", 0 <= o.bit and o.bit + o.size <= 8 and o.size >= 1 and 0 <= o.byte < 64)
        for b in range(o.byte * 8 + o.bit, o.byte * 8 + o.bit + o.size):
            H.check(f"bit_free[{name}@{b}]", b not in used, witness={"bit": b, "also_used_by": used.get(b)})
            used[b] = name


@contract(
    "options_record_roundtrip", ["C11", "C02", "C05"],
    targets=["rv.modules.module:Module.options_chunks", "rv.modules.module:Module.load_options"],
    cases=_class_cases,
)
def options_record_roundtrip(H, cname):
    """All options of the class hold arbitrary representable stored values at once.
    ensures: options_chunks yields CHNM == options_chnm and a CHDT of exactly (highest option byte + 1)
    bytes; load_options on that record restores every option value; every record byte is 0..255."""
    cls = K.class_by_name(cname)
    m = cls()
    stored = {}
    for name, o in cls.options.items():
        stored[name] = _sym_stored(H, o)
        m.option_values[name] = stored[name]
    chunks = list(H.call(m.options_chunks))
    H.check("two_chunks", len(chunks) == 2 and chunks[0][0] == b"CHNM" and chunks[1][0] == b"CHDT")
    H.check("chnm_is_options_chnm", H.eq(chunks[0][1], cls.options_chnm.to_bytes(4, "little")))
    data = chunks[1][1]
    top = max(o.byte for o in cls.options.values())
    H.check("record_covers_highest_option_byte", len(data) == top + 1)
    m2 = cls()
    ch = Chunk()
    ch.chnm = cls.options_chnm
    ch.chdt = data
    H.call(m2.load_options, ch)
    for name, o in cls.options.items():
        H.check(f"restored[{name}]", H.eq(m2.option_values[name], stored[name]))
    # the values belong to the instance: constructing another module of the class (which applies
    # the defaults to ITS options) leaves both records as they are
    H.call(cls)
    for name, o in cls.options.items():
        H.check(f"kept_while_another_instance_is_built[{name}]",
                H.and_(H.eq(m.option_values[name], stored[name]), H.eq(m2.option_values[name], stored[name])))
    H.cover("reached")


@contract(
    "option_descriptor", ["C11"],
    targets=["rv.option:Option.__get__", "rv.option:Option.__set__"],
    cases=_option_cases,
)
def option_descriptor(H, case):
    """Assignment through the descriptor, every other option holding an arbitrary value:
    * 1-bit option: reads back bool(v) (the logical value also when declared inverted; the stored
      bit is the inverse);
    * option with declared min/max (YAML): reads back clamp(v);
    * other multi-bit option: reads back v (for representable v);
    * mutually exclusive options are never both on afterwards; all remaining options unchanged."""
    cname, oname = case
    cls = K.class_by_name(cname)
    spec = {o.name: o for o in yamlspec.spec_by_mtype()[cls.mtype].options}
    osp = spec[oname]
    m = cls()
    for name, o in cls.options.items():
        m.option_values[name] = _sym_stored(H, o)
    before = dict(m.option_values)
    if osp.size == 1:
        v = H.bool("new")
    elif osp.min is not None or osp.max is not None:
        v = H.int("new", -(2**16), 2**16)
    else:
        v = H.int("new", 0, 2**osp.size - 1)
    H.setattr(m, oname, v)
    got = H.getattr(m, oname)
    if osp.size == 1:
        H.check("reads_back_logical_value", H.eq(got, v))
        if osp.inverted:
            H.check("stored_bit_is_inverse", H.eq(m.option_values[oname], H.not_(v)))
        else:
            H.check("stored_bit_is_value", H.eq(m.option_values[oname], v))
    elif osp.min is not None or osp.max is not None:
        lo, hi = osp.min, osp.max
        H.check("clamped_into_declared_bounds", got == H.ite(v < lo, lo, H.ite(v > hi, hi, v)))
    else:
        H.check("reads_back", got == v)
    for other in osp.exclusive_of:
        H.check(f"never_both_on[{other}]", H.not_(H.and_(H.getattr(m, oname), H.getattr(m, other))))
    untouched = [n for n in cls.options if n != oname and n not in osp.exclusive_of]
    H.check("other_options_unchanged", H.eq({n: m.option_values[n] for n in untouched}, {n: before[n] for n in untouched}))
    H.cover("reached")


@contract(
    "options_canary", ["C11"], targets=["rv.modules.module:Module.options_chunks"], canary=True,
    cases=lambda tier: [("MultiSynth", "MultiSynth")],
)
def options_canary(H, cname):
    cls = K.class_by_name(cname)
    m = cls()
    for name, o in cls.options.items():
        m.option_values[name] = _sym_stored(H, o)
    data = list(H.call(m.options_chunks))[1][1]
    H.check("canary_byte4_is_zero", data[4] == 0)


def _bounded_option_cases(tier):
    out = []
    for c in _option_classes():
        for o in yamlspec.spec_by_mtype()[c.mtype].options:
            if o.min is not None or o.max is not None:
                out.append((f"{K.cls_id(c)}.{o.name}", (K.cls_id(c), o.name)))
    return out


@contract(
    "option_clamp_probe", ["C11"], targets=["rv.option:Option.__set__"], cases=_bounded_option_cases,
    kind="bounded", bound="boundary values min-1, min, min+1, max-1, max, max+1, +-2^15 assigned natively",
)
def option_clamp_probe(H, case):
    """Run-time evaluation of the clamp clause on boundary values (refuter for a missing bound;
    the all-values statement is the deductive contract option_descriptor)."""
    cname, oname = case
    cls = K.class_by_name(cname)
    osp = {o.name: o for o in yamlspec.spec_by_mtype()[cls.mtype].options}[oname]
    lo, hi = osp.min, osp.max
    for v in [lo - 1, lo, lo + 1, hi - 1, hi, hi + 1, -(2**15), 2**15, (lo + hi) // 2]:
        m = cls()
        try:
            setattr(m, oname, v)
            got = getattr(m, oname)
        except Exception as e:  # noqa
            got = f"raised {type(e).__name__}"
        H.check("clamped_into_declared_bounds", got == max(lo, min(hi, v)), witness={"assigned": v, "read_back": got})


def _loaded_len_cases(tier):
    out = []
    for c in _option_classes():
        top = max(o.byte for o in c.options.values())
        lens = sorted({0, 1, top, top + 1, 64}) if tier == "quick" else sorted(set(range(0, top + 3)) | {64})
        for n in lens:
            out.append((f"{K.cls_id(c)}/loaded_record_len={n}", (K.cls_id(c), n)))
    return out


@contract(
    "options_roundtrip_after_load", ["C11", "C06"],
    targets=["rv.modules.module:Module.load_options", "rv.modules.module:Module.options_chunks"],
    cases=_loaded_len_cases,
)
def options_roundtrip_after_load(H, case):
    """The same round-trip statement for a module *as the loader leaves it*: first an options record
    of any length 0..64 (shorter, equal or longer than the current layout; arbitrary bytes) is loaded,
    then every option is given an arbitrary representable value.  ensures: the record written covers
    the highest option byte and restores every value (nothing of the loaded record is replayed)."""
    cname, n = case
    cls = K.class_by_name(cname)
    m = cls()
    old = Chunk()
    old.chnm = cls.options_chnm
    old.chdt = H.bytes("loaded", n)
    H.call(m.load_options, old)
    stored = {}
    for name, o in cls.options.items():
        stored[name] = _sym_stored(H, o)
        m.option_values[name] = stored[name]
    chunks = list(H.call(m.options_chunks))
    data = chunks[1][1]
    top = max(o.byte for o in cls.options.values())
    H.check("record_covers_highest_option_byte", len(data) == top + 1)
    m2 = cls()
    ch = Chunk()
    ch.chnm = cls.options_chnm
    ch.chdt = data
    H.call(m2.load_options, ch)
    for name, o in cls.options.items():
        H.check(f"restored[{name}]", H.eq(m2.option_values[name], stored[name]))
    H.cover("reached")


@contract("options_chunk_always_written", ["C11", "C03"], cases=_class_cases,
          targets=["rv.modules.module:Module.specialized_iff_chunks", "rv.modules.module:Module.options_chunks", "rv.synth:Synth.chunks",
                   "rv.readers.module:ModuleReader.process_SEND", "rv.modules.module:Module.load_options"])
def options_chunk_always_written(H, cname):
    """Whole-module statement: for ANY stored option values - including all of them zero - the written
    module section contains the options chunk (CHNM == the type's options chunk number) whose record
    covers the highest option byte, and loading the file gives every option the value it had."""
    from rv.synth import Synth
    from spec import format as F

    from . import rw

    cls = K.class_by_name(cname)
    m = cls()
    stored = {}
    for name, o in cls.options.items():
        if name == "user_defined_controllers":
            # decides how many controller values are written: case split instead of a symbolic count
            stored[name] = H.choice("user_defined_controllers", [0, 2, 96])
        else:
            stored[name] = _sym_stored(H, o)
        m.option_values[name] = stored[name]
    if "user_defined_controllers" in stored:
        m.recompute_controller_attachment()
    data = rw.write_container(H, Synth(m))
    chunks = F.parse_stream(data)
    pos = [i for i, c in enumerate(chunks) if bytes(c[0]) == b"CHNM" and F.dec_u32(c[1]) == cls.options_chnm]
    H.check("options_chunk_present", len(pos) >= 1 and bytes(chunks[pos[0] + 1][0]) == b"CHDT" if pos else False)
    if pos:
        top = max(o.byte for o in cls.options.values())
        H.check("record_covers_highest_option_byte", len(chunks[pos[0] + 1][1]) >= top + 1)
    q = rw.read_back(H, data).module
    for name in cls.options:
        H.check(f"reloaded[{name}]", H.eq(q.option_values[name], stored[name]))
    H.cover("reached")


def _exclusive_pairs():
    out = []
    for c in K.module_classes():
        for name, o in getattr(c, "options", {}).items():
            for other in o.exclusive_of:
                if name < other:
                    out.append((f"{K.cls_id(c)}.{name}+{other}", (K.cls_id(c), name, other)))
    return out


@contract("option_ctor_kwargs", ["C11"], cases=lambda tier: _exclusive_pairs() + [("MetaModule.user_defined_controllers", ("MetaModule", "user_defined_controllers", None))],
          targets=["rv.modules.module:Module.__init__", "rv.option:Option.__set__"])
def option_ctor_kwargs(H, case):
    """Options given as constructor keywords obey the descriptor's rules: two mutually exclusive options
    given as True never end up both on; an option with declared bounds is clamped into them (any
    integer); the record written afterwards holds those values."""
    cname, a, b = case
    cls = K.class_by_name(cname)
    if b is not None:
        m = H.call(cls, **{a: True, b: True})
        H.check("never_both_on", not (H.getattr(m, a) is True and H.getattr(m, b) is True))
        return
    spec = {o.name: o for o in yamlspec.spec_by_mtype()[cls.mtype].options}[a]
    v = H.int("v", -(2**15), 2**15)
    m = H.call(cls, **{a: v})
    got = H.getattr(m, a)
    H.check("clamped_into_declared_bounds", H.and_(got >= spec.min, got <= spec.max))
    H.check("in_range_value_kept", H.implies(H.and_(v >= spec.min, v <= spec.max), got == v))
    H.cover("reached")
