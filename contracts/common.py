"""Shared helpers for the sidecar contracts (domains, class/controller enumeration)."""
from __future__ import annotations

import enum

import rv.api  # noqa: F401  (import order: rv.api before rv.note)
import rv.errors
from rv.controller import CompactRange, DependentRange, NoOffsetRange, Range, WarnOnlyRange
from rv.modules import MODULE_CLASSES

I32 = (-(2**31), 2**31 - 1)
U32 = (0, 2**32 - 1)
U16 = (0, 0xFFFF)
U8 = (0, 255)


def module_classes():
    """All registered concrete module classes, sorted by type name."""
    return [MODULE_CLASSES[k] for k in sorted(MODULE_CLASSES)]


def cls_id(cls):
    return cls.__name__


def class_by_name(name):
    for c in MODULE_CLASSES.values():
        if c.__name__ == name:
            return c
    raise KeyError(name)


def controller_cases(tier=None, classes=None, attached_only=False, include_user_defined=False):
    """[(case_id, (class name, controller name))] over every class x controller."""
    out = []
    for cls in classes or module_classes():
        for name, ctl in cls.controllers.items():
            if not include_user_defined and name.startswith("user_defined_"):
                continue
            out.append((f"{cls.__name__}.{name}", (cls.__name__, name)))
    return out


def is_enum_type(t):
    return isinstance(t, type) and issubclass(t, enum.Enum)


def distinct_ranges():
    """Every concrete Range object reachable from any class (incl. unit-dependent tables)."""
    seen = {}
    for cls in module_classes():
        for name, ctl in cls.controllers.items():
            t = ctl.value_type
            rs = []
            if isinstance(t, DependentRange):
                rs = list(t.range_map.values()) + [t.default]
            elif isinstance(t, Range):
                rs = [t]
            for r in rs:
                key = (type(r).__name__, r.min, r.max)
                seen.setdefault(key, (r, f"{cls.__name__}.{name}"))
    return seen


def lenient():
    """What read_sunvox_file establishes for the duration of a load."""
    rv.errors.RAISE_CONTROLLER_VALUE_ERRORS = False


def strict():
    rv.errors.RAISE_CONTROLLER_VALUE_ERRORS = True


def unit_cases(H, m, ctl):
    """For a unit-dependent controller: case-split the unit controller (complete), set it on `m`
    as a finished load would have, and return the Range that applies."""
    t = ctl.value_type
    unit_ctl = type(m).controllers[t.ctl_name]
    unit = H.enum(f"unit:{t.ctl_name}", unit_ctl.value_type)
    m.controller_values[t.ctl_name] = unit
    m.controllers_loaded.add(t.ctl_name)
    return t.range_map[unit]


def sym_value_in_domain(H, m, name, leaf="v"):
    """A symbolic (or case-split) value ranging over the whole declared domain of controller
    `name` on instance `m`.  -> (value, value_type)"""
    ctl = type(m).controllers[name].controller(m)
    t = ctl.value_type
    if isinstance(t, DependentRange):
        t = unit_cases(H, m, ctl)
    if isinstance(t, Range):
        return H.int(leaf, t.min, t.max), t
    if is_enum_type(t):
        return H.enum(leaf, t), t
    if t is bool:
        return H.bool(leaf), t
    if t is None:
        return None, t
    raise AssertionError(f"unknown value type {t!r}")


def snapshot(obj, depth=6, _seen=None):
    """Structural snapshot of an object's reachable public+private state (for frame conditions)."""
    if _seen is None:
        _seen = {}
    if obj is None or isinstance(obj, (int, str, bytes, float, bool, enum.Enum)):
        return obj
    from rvproof.sym import SymBase

    if isinstance(obj, SymBase):
        return obj
    oid = id(obj)
    if oid in _seen:
        return ("ref", _seen[oid])
    _seen[oid] = len(_seen)
    if depth <= 0:
        return ("deep", type(obj).__name__)
    if isinstance(obj, (list, tuple)):
        return [snapshot(x, depth - 1, _seen) for x in obj]
    if isinstance(obj, (set, frozenset)):
        return ("set", sorted(repr(x) for x in obj))
    if isinstance(obj, dict):
        import collections

        if isinstance(obj, collections.defaultdict) and obj.default_factory is not None:
            # reading a missing key materialises a default entry: not an observable change
            dflt = repr(snapshot(obj.default_factory(), depth - 1, {}))
            out = {}
            for k, v in obj.items():
                sv = snapshot(v, depth - 1, {})
                if repr(sv) != dflt or any(isinstance(x, SymBase) for x in vars(v).values()):
                    out[repr(k)] = sv
            return out
        return {repr(k): snapshot(v, depth - 1, _seen) for k, v in obj.items()}
    d = getattr(obj, "__dict__", None)
    out = {"__type__": type(obj).__name__}
    if d is not None:
        for k, v in d.items():
            if k == "_order":
                continue  # Controller._order is a global creation counter, not object state
            out[k] = snapshot(v, depth - 1, _seen)
    slots = []
    for k in type(obj).__mro__:
        slots.extend(getattr(k, "__slots__", ()) or ())
    for s in slots:
        if s in ("__weakref__", "__dict__"):
            continue
        try:
            out[s] = snapshot(object.__getattribute__(obj, s), depth - 1, _seen)
        except AttributeError:
            pass
    return out
