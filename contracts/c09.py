"""C09 - controller assignment enforces declared domains; defaults match the specification."""
from __future__ import annotations

from rv.controller import DependentRange, Range, WarnOnlyRange
from rv.errors import ControllerValueError
from rvproof.contract import contract
from spec import yamlspec

from . import common as K

LEVEL = "proof"
ASSUMPTIONS = [
    "the 502 specified controllers plus the Sampler's 5 detached ones; the MetaModule's 96 user-defined "
    "controllers are per-instance objects whose behaviour is covered by C15",
    "out-of-range probe values are any integers within +-2^40 outside [min,max] (symbolic, not sampled)",
    "the default oracle is specs/fileformat.yaml, read on every run",
]


def _spec_for(cls):
    return yamlspec.spec_by_mtype().get(cls.mtype)


def _class_cases(tier):
    return [(K.cls_id(c), K.cls_id(c)) for c in K.module_classes()]


@contract(
    "defaults_match_spec", ["C09"],
    targets=["rv.modules.module:Module.__init__", "rv.controller:Controller.set_initial",
             "rv.controller:Controller.__get__", "rv.controller:Controller.__set__",
             "rv.option:Option.__set__"],
    cases=_class_cases,
)
def defaults_match_spec(H, cname):
    """ensures: after cls() every specified controller reads its YAML default
    (the constructor - including each subclass __init__ - is symbolically executed)."""
    cls = K.class_by_name(cname)
    spec = _spec_for(cls)
    H.check("class_has_spec", spec is not None)
    if spec is None:
        return
    m = H.call(cls)
    for cs in spec.controllers:
        got = H.getattr(m, cs.name)
        if cs.kind == "enum":
            H.check(f"default[{cs.name}]", getattr(got, "name", None) == cs.default and got.value == cs.members[cs.default])
        elif cs.kind == "bool":
            H.check(f"default[{cs.name}]", got is bool(cs.default))
        else:
            H.check(f"default[{cs.name}]", got == cs.default)
    H.cover("reached")


def _ctl_cases(tier):
    return K.controller_cases(tier)


def _others(m, name):
    return {k: v for k, v in m.controller_values.items() if k != name}


@contract(
    "assign_in_range", ["C09"],
    targets=["rv.controller:Controller.__set__", "rv.controller:Controller.propagate",
             "rv.controller:Controller.set_initial", "rv.controller:Controller.__get__",
             "rv.controller:Range.__call__", "rv.controller:Range.validate",
             "rv.controller:DependentRange.parent"],
    cases=_ctl_cases,
)
def assign_in_range(H, case):
    """strict mode; for every in-domain value v (int range: symbolic; enum: every member, given as
    member, as value and as name; bool): `m.<ctl> = v` does not raise, reads back exactly v, and
    leaves every other controller untouched."""
    cname, name = case
    cls = K.class_by_name(cname)
    m = cls()
    K.strict()
    v, t = K.sym_value_in_domain(H, m, name)
    before = _others(m, name)
    given = v
    if K.is_enum_type(t):
        form = H.choice("form", ["member", "value", "name"])
        given = v if form == "member" else (v.value if form == "value" else v.name)
    H.setattr(m, name, given)
    got = H.getattr(m, name)
    H.check("reads_back", H.eq(got, v))
    if K.is_enum_type(t):
        H.check("reads_back_member", isinstance(got, t))
    H.check("others_untouched", H.eq(_others(m, name), before))
    H.cover("reached")


def _fixed_range_cases(tier):
    out = []
    for cid, (cname, name) in K.controller_cases(tier):
        t = K.class_by_name(cname).controllers[name].value_type
        if isinstance(t, Range) and not isinstance(t, WarnOnlyRange):
            out.append((cid, (cname, name)))
    return out


@contract(
    "assign_out_of_range", ["C09"],
    targets=["rv.controller:Controller.__set__", "rv.controller:Controller.set_initial",
             "rv.controller:Range.validate", "rv.errors:raise_or_warn_controller_value_validation"],
    cases=_fixed_range_cases,
)
def assign_out_of_range(H, case):
    """fixed Range, v outside [min,max]: strict mode => ControllerValueError and the module's
    controller values are exactly as before; lenient mode => accepted and stored."""
    cname, name = case
    cls = K.class_by_name(cname)
    m = cls()
    t = cls.controllers[name].value_type
    v = H.int("v", -(2**40), 2**40)
    H.assume(H.or_(v < t.min, v > t.max))
    mode = H.choice("mode", ["strict", "lenient"])
    before = dict(m.controller_values)
    if mode == "strict":
        K.strict()
        exc, _ = H.raises(H.setattr, m, name, v)
        H.check("rejected_with_controller_value_error", isinstance(exc, ControllerValueError))
        H.check("previous_value_remains", H.eq(dict(m.controller_values), before))
        # the instance stays usable: a following in-range assignment to the same controller takes effect
        ok_v = H.int("then", t.min, t.max)
        exc2, _ = H.raises(H.setattr, m, name, ok_v)
        H.check("later_valid_assignment_accepted", exc2 is None)
        H.check("later_valid_assignment_reads_back", H.eq(H.getattr(m, name), ok_v))
    else:
        K.lenient()
        exc, _ = H.raises(H.setattr, m, name, v)
        H.check("accepted_when_lenient", exc is None)
        H.check("stored_when_lenient", H.eq(H.getattr(m, name), v))
    H.cover("reached")


@contract(
    "ctor_kwargs", ["C09"],
    targets=["rv.modules.module:Module.__init__", "rv.controller:Controller.set_initial"],
    cases=_ctl_cases,
)
def ctor_kwargs(H, case):
    """Constructor keyword values obey the same rules: cls(**{ctl: v}) reads back v for in-domain v;
    for a fixed Range and out-of-range v it raises ControllerValueError (strict mode)."""
    cname, name = case
    cls = K.class_by_name(cname)
    ctl = cls.controllers[name]
    t0 = ctl.value_type
    K.strict()
    if isinstance(t0, DependentRange):
        # the unit is itself a constructor keyword; dependants are seeded after their unit
        probe = cls()
        t = K.unit_cases(H, probe, ctl)
        unit = probe.controller_values[t0.ctl_name]
        v = H.int("v", t.min, t.max)
        m = H.call(cls, **{name: v, t0.ctl_name: unit})
        H.check("kw_reads_back", H.eq(H.getattr(m, name), v))
        H.check("unit_reads_back", H.eq(H.getattr(m, t0.ctl_name), unit))
        return
    if isinstance(t0, Range):
        v = H.int("v", -(2**40), 2**40)
        inside = H.and_(v >= t0.min, v <= t0.max)
        exc, m = H.raises(H.call, cls, **{name: v})
        if exc is None:
            H.check("kw_reads_back", H.eq(H.getattr(m, name), v))
            if not isinstance(t0, WarnOnlyRange):
                H.check("accepted_only_in_range", inside)
        else:
            H.check("kw_rejected_with_controller_value_error", isinstance(exc, ControllerValueError))
            H.check("rejected_only_out_of_range", H.not_(inside))
    else:
        v, _t = K.sym_value_in_domain(H, cls(), name)
        m = H.call(cls, **{name: v})
        H.check("kw_reads_back", H.eq(H.getattr(m, name), v))
    H.cover("reached")


def _enum_ctl_cases(tier):
    return [(cid, c) for cid, c in K.controller_cases(tier)
            if K.is_enum_type(K.class_by_name(c[0]).controllers[c[1]].value_type)]


@contract(
    "invalid_enum_name", ["C09"], targets=["rv.controller:Controller.set_initial"], cases=_enum_ctl_cases,
)
def invalid_enum_name(H, case):
    """Assigning a string that is not a member name raises KeyError and changes nothing."""
    cname, name = case
    cls = K.class_by_name(cname)
    m = cls()
    before = dict(m.controller_values)
    exc, _ = H.raises(H.setattr, m, name, "no such member ☃")
    H.check("invalid_name_is_key_error", isinstance(exc, KeyError))
    H.check("nothing_changed", H.eq(dict(m.controller_values), before))


@contract(
    "assign_canary", ["C09"], targets=["rv.controller:Controller.set_initial"], canary=True,
    cases=lambda tier: [("Amplifier.volume", ("Amplifier", "volume"))],
)
def assign_canary(H, case):
    cls = K.class_by_name(case[0])
    m = cls()
    v = H.int("v", 0, 1024)
    H.setattr(m, case[1], v)
    H.check("canary_reads_back_plus_one", H.getattr(m, case[1]) == v + 1)


def _nested_fixture_cases(tier):
    import glob
    import os

    root = os.path.join(os.environ.get("RV_REPO", "/repo"), "tests", "files")
    names = ["metamodule.sunsynth", "sampler.sunsynth", "amplifier.sunsynth"]
    return [(n, os.path.join(root, n)) for n in names if os.path.exists(os.path.join(root, n))]


@contract(
    "strict_after_loading_and_cloning", ["C09", "C18"], kind="bounded", cases=_nested_fixture_cases,
    targets=["rv.readers.reader:read_sunvox_file", "rv.errors:override_raise_controller_value_errors", "rv.controller:Controller.set_initial"],
    bound="after loading each listed fixture (incl. nested loads), after two FAILING loads of it (unknown module type, file cut mid-chunk), cloning a MetaModule with an embedded module and cloning a project: boundary out-of-range values on a fresh Amplifier / Generator, natively",
)
def strict_after_loading_and_cloning(H, path):
    """The default strict mode is still in force after (nested) loads and clones: out-of-range
    assignments and constructor keywords are rejected, in-range ones accepted."""
    import rv.errors
    from rv.modules.amplifier import Amplifier
    from rv.modules.generator import Generator
    from rv.modules.metamodule import MetaModule
    from rv.project import Project
    from rv.readers.reader import read_sunvox_file

    def probe(tag):
        a = Amplifier()
        for v in (1025, -1):
            try:
                a.volume = v
                ok = False
            except ControllerValueError:
                ok = True
            H.check("out_of_range_still_rejected", ok and a.volume == 256, witness={"after": tag, "value": v, "reads": a.volume})
        try:
            Generator(polyphony=0)
            ok = False
        except ControllerValueError:
            ok = True
        H.check("out_of_range_keyword_still_rejected", ok, witness={"after": tag})
        a.volume = 1024
        H.check("in_range_still_accepted", a.volume == 1024, witness={"after": tag})
        H.check("flag_is_strict", rv.errors.RAISE_CONTROLLER_VALUE_ERRORS is True, witness={"after": tag})

    read_sunvox_file(path)
    probe("load " + path.rsplit("/", 1)[-1])
    # loads that fail: a module type the library does not know, and the file cut in the middle
    import io

    data = open(path, "rb").read()
    broken = {"cut in the middle of a chunk": data[: len(data) // 2 + 3]}
    i = data.find(b"STYP")
    if i >= 0:
        broken["unknown module type"] = data[: i + 8] + b"Q" + data[i + 9:]
    for what, blob in broken.items():
        try:
            read_sunvox_file(io.BytesIO(blob))
            failed = False
        except Exception:  # noqa
            failed = True
        probe(f"load of {path.rsplit('/', 1)[-1]} with {what} ({'raised' if failed else 'accepted'})")
    mm = MetaModule()
    mm.project.new_module(Amplifier)
    mm.clone()
    probe("MetaModule.clone")
    p = Project()
    p.attach_module(mm)
    p.clone()
    probe("Project.clone with MetaModule")


@contract(
    "defaults_unaffected_by_earlier_instances", ["C09", "C17"], kind="bounded", cases=_class_cases,
    targets=["rv.modules.module:Module.__init__", "rv.chunks.array:ArrayChunk.reset", "rv.modules.spectravoice:SpectraVoice.__init__"],
    bound="per class: one instance built, every list-valued payload it owns edited in place (arrays, drawn waveform, SpectraVoice harmonics through "
          "their public setters, every controller set to its maximum / last member), then a second instance built and compared with the specification; natively",
)
def defaults_unaffected_by_earlier_instances(H, cname):
    """A freshly constructed module reports the specified defaults also when another module of the type
    was constructed and edited before it."""
    cls = K.class_by_name(cname)
    spec = _spec_for(cls)
    if spec is None:
        return
    a = cls()
    K.lenient()
    try:
        for k, v in vars(a).items():
            vals = getattr(v, "values", None)
            if isinstance(vals, list) and vals and all(isinstance(x, int) and not isinstance(x, bool) for x in vals):
                for i in range(len(vals)):
                    vals[i] = (vals[i] + 17) % 250
        if hasattr(a, "drawn_waveform"):
            for i in range(len(a.drawn_waveform.samples)):
                a.drawn_waveform.samples[i] = (i * 5) % 120
        for h in getattr(a, "harmonics", []) or []:
            h.freq_hz, h.volume, h.width = 440 + h.index, 17, 9
        for cs in spec.controllers:
            ctl = cls.controllers[cs.name]
            t = ctl.instance_value_type(a)
            try:
                if isinstance(t, Range):
                    setattr(a, cs.name, t.max)
                elif t is bool:
                    setattr(a, cs.name, not getattr(a, cs.name))
                elif K.is_enum_type(t):
                    setattr(a, cs.name, list(t)[-1])
            except Exception:  # noqa - editing A is only the history; what is checked is B
                pass
    finally:
        K.strict()
    b = cls()
    for cs in spec.controllers:
        got = getattr(b, cs.name)
        if cs.kind == "enum":
            ok = getattr(got, "name", None) == cs.default
        elif cs.kind == "bool":
            ok = got is bool(cs.default)
        else:
            ok = got == cs.default
        H.check(f"default_of_second_instance_matches_spec[{cs.name}]", ok, witness={"class": cname, "controller": cs.name, "got": repr(got), "spec": repr(cs.default)})


@contract(
    "lenient_load_keeps_out_of_range_values", ["C09", "C04"], cases=_fixed_range_cases,
    targets=["rv.modules.module:Module.set_raw", "rv.errors:override_raise_controller_value_errors", "rv.errors:raise_or_warn_controller_value_validation"],
)
def lenient_load_keeps_out_of_range_values(H, case):
    """Lenient (load) mode through the loader's own entry point: Module.set_raw with a stored value
    that decodes to a value OUTSIDE the fixed range, inside the lenient context the reader uses - the
    decoded value is accepted and stored (only a warning), every other controller is untouched, and
    strict mode is in force again afterwards."""
    import rv.errors
    from rv.errors import override_raise_controller_value_errors

    cname, name = case
    cls = K.class_by_name(cname)
    m = cls()
    t = cls.controllers[name].value_type
    v = H.int("v", -(2**30), 2**30)
    H.assume(H.or_(v < t.min, v > t.max))
    raw = v - t.min if (t.min < 0 and type(t).__name__ != "NoOffsetRange") else v
    before = {k: x for k, x in m.controller_values.items() if k != name}
    K.strict()
    with override_raise_controller_value_errors(False):
        exc, _ = H.raises(H.call, m.set_raw, name, raw)
    H.check("accepted_when_lenient", exc is None)
    H.check("decoded_value_is_stored", H.eq(m.controller_values[name], v))
    H.check("others_untouched", H.eq({k: x for k, x in m.controller_values.items() if k != name}, before))
    H.check("strict_again_afterwards", rv.errors.RAISE_CONTROLLER_VALUE_ERRORS is True)
    H.cover("reached")
