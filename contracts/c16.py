"""C16 - Sampler instruments keep samples, envelopes and maps bit-exact."""
from __future__ import annotations

import rv.api  # noqa
from rv.modules.amplifier import Amplifier
from rv.modules.sampler import Sampler
from rv.project import Project
from rv.synth import Synth
from rvproof.contract import contract
from spec import format as F

from . import common as K
from . import rw

LEVEL = "proof"
ASSUMPTIONS = [
    "every record field ranges over the full width of its struct code; name fields are byte strings without trailing NUL (the fixed-width "
    "fields are NUL padded, so a trailing NUL cannot be represented); envelope point indices and point counts are 0..255 because the "
    "writer mirrors them into the 8-bit legacy fields of the instrument record",
    "sample slot subsets, envelope point counts, sample formats / channels / loop types and PCM lengths are enumerated per case (values symbolic); "
    "sample data length is a whole number of frames",
    "the embedded effect is an Amplifier synth with symbolic controllers (its own round trip is C02)",
]
_T = ["rv.modules.sampler:Sampler.specialized_iff_chunks", "rv.modules.sampler:Sampler.global_config_chunks", "rv.modules.sampler:Sampler.sample_chunks",
      "rv.modules.sampler:Sampler.sample_data_chunks", "rv.modules.sampler:Sampler.load_chunk", "rv.modules.sampler:Sampler.load_instrument",
      "rv.modules.sampler:Sampler.load_sample_meta", "rv.modules.sampler:Sampler.load_sample_data", "rv.modules.sampler:Sampler.finalize_load",
      "rv.modules.sampler:Sampler._upgrade_envelopes", "rv.modules.sampler:Sampler.Envelope.chunks", "rv.modules.sampler:Sampler.Envelope.load_chdt",
      "rv.modules.sampler:Sampler.Envelope.bitmask", "rv.modules.sampler:Sampler.Envelope.point_bytes", "rv.modules.sampler:Sampler.NoteSampleMap.bytes",
      "rv.modules.sampler:_StructWriter.*", "rv.modules.sampler:_StructReader.*"]

RECORD_FIELDS = {
    "unused1": K.U32, "unused2": K.U16, "unused3": K.U16, "unused4": K.U32, "volume_old": K.U8, "ins_finetune": (-128, 127),
    "unused5": K.U8, "ins_relative_note": (-128, 127), "unused6": K.U32, "version": K.U32, "max_version": K.U32,
    "editor_cursor": K.I32, "editor_selected_size": K.I32,
}
SAMPLE_FIELDS = {"loop_start": K.U32, "loop_len": K.U32, "volume": K.U8, "finetune": (-128, 127), "rate": K.U32,
                 "panning": (-128, 127), "relative_note": (-128, 127), "reserved2": K.U8, "start_pos": K.U32}
# the envelope chunk stores the three point indices (and the point count) as 16-bit fields
ENV_FIELDS = {"sustain_point": K.U16, "loop_start_point": K.U16, "loop_end_point": K.U16, "ctl_index": K.U8, "gain_pct": K.U8, "velocity": K.U8}


def _envelopes(s):
    return [("volume", s.volume_envelope), ("panning", s.panning_envelope), ("pitch", s.pitch_envelope)] + [
        (f"effect{i + 1}", e) for i, e in enumerate(s.effect_control_envelopes)]


def _name_bytes(H, pfx, n):
    return H.bytes(pfx, n, 1, 255) if n else b""


def build_sampler(H, variant, pfx="s."):
    return fill_sampler(H, Sampler(), variant, pfx)


def fill_sampler(H, s, variant, pfx="s."):
    """Give an existing Sampler (fresh or loaded) the symbolic state described by `variant`."""
    rw.sym_controllers(H, s, pfx + "c.")
    if variant.get("vibrato_full_width"):
        # "all field values within their struct widths": the record holds these as uint8 / uint16, which is
        # wider than the ranges the controllers declare (a lenient load keeps such values)
        for f, (lo, hi) in (("vibrato_attack", K.U8), ("vibrato_depth", K.U8), ("vibrato_rate", K.U8), ("volume_fadeout", K.U16)):
            s.controller_values[f] = H.int(pfx + "wide." + f, lo, hi)
    rw.sym_options(H, s, pfx + "o.")
    for f, (lo, hi) in RECORD_FIELDS.items():
        if variant.get("lean") and f in ("max_version", "editor_cursor", "editor_selected_size"):
            # with the 391-byte record (known finding) these bytes fall into the reader's 128-byte
            # note-map window, whose trailing zeros are stripped one by one: keep them concrete here
            setattr(s, f, {"max_version": 7, "editor_cursor": -5, "editor_selected_size": 3}[f])
            continue
        setattr(s, f, H.int(pfx + f, lo, hi))
    s.instrument_name = _name_bytes(H, pfx + "iname", variant.get("iname", 3))
    full_map = variant.get("full_map", False)
    for i, note in enumerate(s.note_samples):
        # the reader strips trailing zero bytes of the map one by one (one path each): the whole-pipeline
        # cases keep the middle of the map concrete, note_map_roundtrip covers all 119 entries
        if full_map or i < 6 or (i == 118 and not variant.get("lean")):
            s.note_samples[note] = H.int(f"{pfx}map{i}", 0, 255)
        else:
            s.note_samples[note] = (i * 7) % 251 + 1
    counts = variant.get("points", {})
    for name, env in _envelopes(s):
        k = counts.get(name, len(env.points))
        lo = env.range[0]
        # long lists: the first points symbolic, the rest concrete (the writers treat every point alike)
        env.points = [(H.int(f"{pfx}{name}.x{i}", 0, 0xFFFF), H.int(f"{pfx}{name}.y{i}", lo, lo + 0xFFFF)) if (k <= 20 or i < 2) else (i, lo + 7 * i)
                      for i in range(k)]
        for f, (a, b) in ENV_FIELDS.items():
            setattr(env, f, H.int(f"{pfx}{name}.{f}", a, b))
        env.enable = H.bool(f"{pfx}{name}.enable")
        env.sustain = H.bool(f"{pfx}{name}.sustain")
        env.loop = H.bool(f"{pfx}{name}.loop")
    if "samples" in variant:
        s.samples = [None] * 128
    for slot, (fmt, ch, loop, nframes) in variant.get("samples", {}).items():
        smp = Sampler.Sample()
        smp.format, smp.channels, smp.loop_type = fmt, ch, loop
        # the writer branches on this flag: symbolic for the first listed slot, enumerated for the others
        first = slot == min(variant["samples"])
        smp.loop_sustain = H.bool(f"{pfx}smp{slot}.loop_sustain") if (first and not variant.get("lean")) else (slot % 2 == 1)
        for f, (a, b) in SAMPLE_FIELDS.items():
            setattr(smp, f, H.int(f"{pfx}smp{slot}.{f}", a, b))
        smp.name = _name_bytes(H, f"{pfx}smp{slot}.name", 4)
        smp.data = H.bytes(f"{pfx}smp{slot}.pcm", nframes * smp.frame_size) if nframes else b""
        s.samples[slot] = smp
    if variant.get("effect"):
        amp = Amplifier()
        rw.sym_controllers(H, amp, pfx + "fx.")
        s.effect = Synth(amp)
    elif "effect" in variant:
        s.effect = None
    return s


def check_sampler(H, s, q, tag="sampler"):
    H.check(f"{tag}.is_sampler", type(q) is Sampler)
    if type(q) is not Sampler:
        return
    rw.check_controllers(H, s, q, f"{tag}.ctl")
    rw.check_options(H, s, q, f"{tag}.opt")
    for f in RECORD_FIELDS:
        H.check(f"{tag}.{f}", H.eq(getattr(q, f), getattr(s, f)))
    H.check(f"{tag}.instrument_name", H.eq(q.instrument_name, s.instrument_name))
    H.check(f"{tag}.note_samples", H.eq([q.note_samples[k] for k in q.note_samples], [s.note_samples[k] for k in s.note_samples])
            and len(q.note_samples) == 119)
    for (name, a), (_n, b) in zip(_envelopes(s), _envelopes(q)):
        H.check(f"{tag}.env.{name}.points", H.eq([tuple(p) for p in b.points], [tuple(p) for p in a.points]))
        H.check(f"{tag}.env.{name}.flags", H.and_(H.eq(b.enable, a.enable), H.eq(b.sustain, a.sustain), H.eq(b.loop, a.loop)))
        for f in ENV_FIELDS:
            H.check(f"{tag}.env.{name}.{f}", H.eq(getattr(b, f), getattr(a, f)))
    H.check(f"{tag}.slots_stay_at_their_indices", [x is None for x in q.samples] == [x is None for x in s.samples])
    for i, (a, b) in enumerate(zip(s.samples, q.samples)):
        if a is None or b is None:
            continue
        H.check(f"{tag}.sample[{i}].pcm", H.eq(b.data, a.data))
        H.check(f"{tag}.sample[{i}].format_channels_loop", b.format == a.format and b.channels == a.channels and b.loop_type == a.loop_type)
        H.check(f"{tag}.sample[{i}].loop_sustain", H.eq(b.loop_sustain, a.loop_sustain))
        for f in SAMPLE_FIELDS:
            H.check(f"{tag}.sample[{i}].{f}", H.eq(getattr(b, f), getattr(a, f)))
        H.check(f"{tag}.sample[{i}].name", H.eq(b.name, a.name))
        H.check(f"{tag}.sample[{i}].frames", b._length == a.frames and b.frames == a.frames)
    if s.effect is None:
        H.check(f"{tag}.no_effect", q.effect is None)
    else:
        ok = q.effect is not None and type(q.effect.module) is type(s.effect.module)
        H.check(f"{tag}.effect_present", ok)
        if ok:
            rw.check_controllers(H, s.effect.module, q.effect.module, f"{tag}.effect.ctl")
    H.check(f"{tag}.written_by_library_is_not_legacy", q.is_legacy is False and q.legacy_chunks is None)


F8, F16, F32 = Sampler.Format.int8, Sampler.Format.int16, Sampler.Format.float32
MONO, STEREO = Sampler.Channels.mono, Sampler.Channels.stereo
OFF, FWD, PP = Sampler.LoopType.off, Sampler.LoopType.forward, Sampler.LoopType.ping_pong

VARIANTS = {
    "no_samples": {},
    "three_slots": {"samples": {0: (F8, MONO, OFF, 3), 5: (F16, STEREO, FWD, 2), 127: (F32, STEREO, PP, 1)}, "effect": True, "lean": True},
    "formats": {"samples": {1: (F8, STEREO, PP, 2), 2: (F16, MONO, OFF, 2), 3: (F32, MONO, FWD, 1), 126: (F8, MONO, OFF, 0)}, "lean": True},
    "envelope_counts": {"points": {"volume": 0, "panning": 12, "pitch": 1, "effect1": 13, "effect2": 0}, "iname": 22},
    "empty_volume_fine_panning": {"points": {"volume": 0, "panning": 4}, "iname": 0},
    # more points than the legacy header's 8-bit counters can express (the envelope chunk's are 16-bit)
    "vibrato_fields_at_struct_width": {"vibrato_full_width": True, "iname": 2, "lean": True},
    "envelopes_longer_than_255": {"points": {"volume": 256, "panning": 300, "pitch": 257}, "iname": 3, "lean": True},
}


def _variant_cases(tier):
    out = []
    for vn in VARIANTS:
        for ctx in ("clone", "project"):
            if tier == "quick" and ctx == "project" and vn not in ("three_slots",):
                continue
            out.append((f"{vn},{ctx}", (vn, ctx)))
    return out


@contract("sampler_roundtrip", ["C16", "C02", "C01"], targets=_T, cases=_variant_cases)
def sampler_roundtrip(H, case):
    """Sampler with symbolic record fields, note map, envelopes, samples and effect: after clone() /
    project save+load every one of them is equal, sample slots stay at their indices, and the
    library's own output is not treated as a legacy instrument."""
    vn, ctx = case
    s = build_sampler(H, VARIANTS[vn])
    if ctx == "clone":
        q = H.call(s.clone)
    else:
        p = Project()
        p.attach_module(s)
        q = rw.read_back(H, rw.write_container(H, p)).modules[1]
    check_sampler(H, s, q)
    H.cover("reached")


@contract("sampler_record_layout", ["C16", "C03"], targets=_T[1:2] + _T[14:16],
          cases=lambda tier: [("default_envelopes", {}), ("long_envelopes", {"volume": 13, "panning": 14}), ("short_envelopes", {"volume": 0, "panning": 1})])
def sampler_record_layout(H, points):
    """The instrument record (CHNM 0) has the documented layout: 400 bytes, sample count at 0x1c,
    legacy note map at 0x24, vibrato block at 0xee, 'PMAS' at 0xfc, version at 0x100, the 119-entry
    note map at 0x104 followed by 9 reserved zero bytes, then max_version / editor cursor / editor
    selection as three little-endian int32 at 0x184."""
    s = build_sampler(H, {"samples": {4: (F8, MONO, OFF, 1)}, "points": points})
    chunks = list(H.call(s.global_config_chunks))
    H.check("record_size_independent_of_envelope_length", len(chunks[1][1]) == len(list(Sampler().global_config_chunks())[1][1]))
    H.check("chnm_0", chunks[0][0] == b"CHNM" and F.dec_u32(chunks[0][1]) == 0 and chunks[1][0] == b"CHDT")
    rec = chunks[1][1]
    O = F.SAMPLER_OFFSETS
    H.check("record_is_400_bytes", len(rec) == F.SAMPLER_RECORD_LEN)
    H.check("sample_count_at_0x1c", F.M.unpack("<H", rec[0x1C:0x1E])[0] == 5)
    H.check("signature_at_0xfc", H.eq(rec[0xFC:0x100], b"PMAS"))
    H.check("version_at_0x100", F.dec_u32(rec[0x100:0x104]) == s.version)
    H.check("vibrato_block_at_0xee", H.and_(rec[0xEE] == s.vibrato_type.value, rec[0xEF] == s.vibrato_attack,
                                             rec[0xF0] == s.vibrato_depth, rec[0xF1] == s.vibrato_rate,
                                             F.M.unpack("<H", rec[0xF2:0xF4])[0] == s.volume_fadeout))
    H.check("note_map_at_0x104", H.eq(list(rec[0x104:0x104 + 119]), [s.note_samples[k] for k in s.note_samples]))
    H.check("legacy_note_map_at_0x24", H.eq(list(rec[0x24:0x24 + 96]), [s.note_samples[k] for k in list(s.note_samples)[:96]]))
    if len(rec) >= 400:
        H.check("reserved_zeros_after_note_map", H.eq(rec[0x17B:0x184], b"\0" * 9))
        H.check("max_version_at_0x184", F.dec_u32(rec[0x184:0x188]) == s.max_version)
        H.check("editor_cursor_at_0x188", F.dec_i32(rec[0x188:0x18C]) == s.editor_cursor)
        H.check("editor_selected_size_at_0x18c", F.dec_i32(rec[0x18C:0x190]) == s.editor_selected_size)
    H.cover("reached")


def _legacy_cases(tier):
    ks = [(0, 0), (1, 2), (12, 12)] if tier == "quick" else [(a, b) for a in (0, 1, 5, 12) for b in (0, 2, 12)]
    return [(f"vol{a},pan{b}", (a, b)) for a, b in ks]


@contract("legacy_envelopes_converted", ["C16"], targets=_T[5:6] + _T[8:10], cases=_legacy_cases)
def legacy_envelopes_converted(H, case):
    """A pre-envelope instrument (documented 0x184-byte record, no envelope chunks), built by the
    reference encoder with symbolic legacy fields: after loading, the volume / panning envelopes hold
    the first n active points (x, y*0x200 + range minimum), the sustain / loop points and the three
    flags of the legacy bitmap; saving and loading again preserves them."""
    nv, np_ = case
    from rv.modules.module import Chunk
    rec = [0] * 0x184
    sym = {}

    def put(off, b):
        for i, x in enumerate(F.M.byte_items(b)):
            rec[off + i] = x

    pts = {"vol": [], "pan": []}
    for name, base, n in (("vol", 0x84, nv), ("pan", 0xB4, np_)):
        for i in range(12):
            x = H.int(f"{name}.x{i}", 0, 0xFFFF)
            y = H.int(f"{name}.y{i}", 0, 0x40)
            put(base + 4 * i, F.M.pack("<HH", x, y))
            pts[name].append((x, y))
    rec[0xE4], rec[0xE5] = nv, np_
    for k, off in (("vol_sus", 0xE6), ("vol_ls", 0xE7), ("vol_le", 0xE8), ("pan_sus", 0xE9), ("pan_ls", 0xEA), ("pan_le", 0xEB)):
        sym[k] = H.int(k, 0, 255)
        rec[off] = sym[k]
    sym["vol_bits"] = H.int("vol_bits", 0, 7)
    sym["pan_bits"] = H.int("pan_bits", 0, 7)
    rec[0xEC], rec[0xED] = sym["vol_bits"], sym["pan_bits"]
    put(0xFC, b"PMAS")
    put(0x100, F.enc_u32(4))
    s = Sampler()
    ch = Chunk()
    ch.chnm = 0
    ch.chdt = F.M.mkbytes(rec)
    H.call(s.load_chunk, ch)
    H.call(s.finalize_load)
    H.check("not_flagged_legacy", s.is_legacy is False)
    vol, pan = s.volume_envelope, s.panning_envelope
    H.check("volume_points", H.eq([tuple(p) for p in vol.points], [(x, y * 0x200 + 0) for x, y in pts["vol"][:nv]]))
    H.check("panning_points", H.eq([tuple(p) for p in pan.points], [(x, y * 0x200 - 0x4000) for x, y in pts["pan"][:np_]]))
    H.check("volume_indices", H.and_(vol.sustain_point == sym["vol_sus"], vol.loop_start_point == sym["vol_ls"], vol.loop_end_point == sym["vol_le"]))
    H.check("panning_indices", H.and_(pan.sustain_point == sym["pan_sus"], pan.loop_start_point == sym["pan_ls"], pan.loop_end_point == sym["pan_le"]))
    H.check("volume_flags", H.and_(H.eq(vol.enable, sym["vol_bits"] % 2 == 1), H.eq(vol.sustain, (sym["vol_bits"] // 2) % 2 == 1),
                                   H.eq(vol.loop, (sym["vol_bits"] // 4) % 2 == 1)))
    H.check("panning_flags", H.and_(H.eq(pan.enable, sym["pan_bits"] % 2 == 1), H.eq(pan.sustain, (sym["pan_bits"] // 2) % 2 == 1),
                                    H.eq(pan.loop, (sym["pan_bits"] // 4) % 2 == 1)))
    q = H.call(s.clone)
    H.check("converted_envelopes_survive_resave", H.eq([tuple(p) for p in q.volume_envelope.points], [tuple(p) for p in vol.points])
            and H.eq([tuple(p) for p in q.panning_envelope.points], [tuple(p) for p in pan.points]))
    H.cover("reached")


@contract("note_map_roundtrip", ["C16"], targets=_T[1:2] + _T[5:6] + _T[14:15])
def note_map_roundtrip(H, _):
    """All 119 note-map entries symbolic: the record written by global_config_chunks, loaded by
    load_instrument, restores every entry (including maps that end in zeros)."""
    from rv.modules.module import Chunk

    s = build_sampler(H, {"full_map": True, "iname": 0})
    chunks = list(H.call(s.global_config_chunks))
    q = Sampler()
    ch = Chunk()
    ch.chnm = 0
    ch.chdt = chunks[1][1]
    H.call(q.load_instrument, ch)
    H.check("every_entry_restored", H.eq([q.note_samples[k] for k in q.note_samples], [s.note_samples[k] for k in s.note_samples]))
    H.check("map_has_119_keys", len(q.note_samples) == 119)
    H.cover("reached")


@contract("sampler_canary", ["C16"], targets=["rv.modules.sampler:Sampler.sample_chunks"], canary=True)
def sampler_canary(H, _):
    """False claim: sample panning survives for every value -200..200 (it is stored as one byte)."""
    s = Sampler()
    smp = Sampler.Sample()
    smp.data = b"\x00" * 8
    smp.panning = H.int("pan", -128, 127)
    s.samples[0] = smp
    q = H.call(s.clone)
    H.check("canary_panning_offset_is_zero", q.samples[0].panning == smp.panning + 1)
