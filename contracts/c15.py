"""C15 - MetaModules keep embedded project and user controllers intact at any depth."""
from __future__ import annotations

import rv.api  # noqa
from rv.controller import Range
from rv.modules.amplifier import Amplifier
from rv.modules.lfo import Lfo
from rv.modules.metamodule import MetaModule
from rv.pattern import Pattern
from rv.project import Project
from rv.synth import Synth
from rvproof.contract import contract
from spec import format as F

from . import common as K
from . import rw

LEVEL = "proof"
ASSUMPTIONS = [
    "a MetaModule state is valid when the value types of its exposed user-defined controllers have been derived from its mappings "
    "(MetaModule.update_user_defined_controllers(), which is what the loader does); values range over the derived type",
    "user-controller count n is case-split (quick: 0,1,2,5,27,96; thorough: every 0..96); mapping targets cover a negative-minimum range, "
    "a bool, an enum, a plain range, 'unset' and a non-existent module; all remaining mapping slots hold arbitrary 16-bit pairs (symbolic)",
    "nesting: the embedded project of case 'nested' contains a second MetaModule with its own symbolic state (depth 2); deeper nesting "
    "follows by the same recursion of read_sunvox_file (assume/guarantee on the nested load), labels are enumerated from the C01 text catalogue",
    "embedded-project module controllers, the embedded pattern's cells and all user-controller values are symbolic simultaneously",
]
_T = ["rv.modules.metamodule:MetaModule.__init__", "rv.modules.metamodule:MetaModule.__getattr__", "rv.modules.metamodule:MetaModule.__setattr__",
      "rv.modules.metamodule:MetaModule.chnk", "rv.modules.metamodule:MetaModule.specialized_iff_chunks", "rv.modules.metamodule:MetaModule.load_chunk",
      "rv.modules.metamodule:MetaModule.load_project", "rv.modules.metamodule:MetaModule.load_label",
      "rv.modules.metamodule:MetaModule.recompute_controller_attachment", "rv.modules.metamodule:MetaModule.update_user_defined_controllers",
      "rv.modules.metamodule:MetaModule.MappingArray.*", "rv.modules.metamodule:UserDefined.*", "rv.modules.metamodule:UserDefinedProxy.*",
      "rv.readers.module:ModuleReader.process_STYP", "rv.readers.module:ModuleReader.process_SEND", "rv.synth:Synth.chunks", "rv.project:Project.chunks"]


def _ctl_index(cls, name):
    return list(cls.controllers).index(name)


TARGETS = [
    (1, _ctl_index(Amplifier, "balance")),  # Range(-128, 128): offset encoding
    (1, _ctl_index(Amplifier, "inverse")),  # bool
    (2, _ctl_index(Lfo, "waveform")),  # enum
    (1, _ctl_index(Amplifier, "volume")),  # plain range
    (0, 0),  # unset
    (9, 3),  # module that does not exist in the embedded project
]


def build_metamodule(H, n, pfx="mm.", nested=False, raised_to=None, hole=False):
    m = MetaModule()
    if hole:
        # an empty position in front of the embedded modules (as in a loaded project with a deleted module)
        m.project.attach_module(None)
    if raised_to is not None:
        # history: the count was higher before (labels and values were given to controllers that are
        # hidden again afterwards)
        m.user_defined_controllers = raised_to
        for i in range(raised_to):
            m.user_defined[i].label = f"old {i}"
            m.controller_values[f"user_defined_{i + 1}"] = 100 + i
    inner = m.project
    if hole:
        # keep position 1 empty: append like the loader does (attach_module would fill the gap)
        amp = inner.attach_module(Amplifier(name="inner amp"), loading=True)
        lfo = inner.attach_module(Lfo(name="inner lfo"), loading=True)
    else:
        amp = inner.new_module(Amplifier, name="inner amp")
        lfo = inner.new_module(Lfo, name="inner lfo")
    rw.sym_controllers(H, amp, pfx + "amp.")
    rw.sym_controllers(H, lfo, pfx + "lfo.")
    inner.initial_bpm = H.int(pfx + "inner_bpm", *K.U32)
    pat = Pattern(lines=1, tracks=2)
    inner.attach_pattern(pat)
    rw.sym_note(H, pat.data[0][0], pfx + "cell0.")
    if nested:
        deep = build_metamodule(H, 2, pfx + "deep.", nested=False)
        inner.attach_module(deep)
    m.user_defined_controllers = n
    shift = 1 if hole else 0
    targets = [((mod + shift) if mod in (1, 2) else mod, ctl) for mod, ctl in TARGETS]
    for i in range(MetaModule.MappingArray.length):
        if i < n and i < len(targets):
            m.mappings.values[i] = MetaModule.Mapping(targets[i])
        elif i < n:
            m.mappings.values[i] = MetaModule.Mapping(targets[i % 4])
        else:
            m.mappings.values[i] = MetaModule.Mapping((H.int(f"{pfx}map{i}.module", 0, 0xFFFF), H.int(f"{pfx}map{i}.ctl", 0, 0xFFFF)))
    # value types of the exposed user-defined controllers, derived here from the documented meaning of a
    # mapping (module = position in the embedded module list INCLUDING empty positions, controller =
    # 0-based position in that module's controller list) - deliberately not by calling the library's own
    # update_user_defined_controllers(), which is code under test
    for i in range(n):
        mp = m.mappings.values[i]
        ud = m.user_defined[i]
        if mp.module == 0 or mp.module >= len(inner.modules) or inner.modules[mp.module] is None:
            continue
        tm = inner.modules[mp.module]
        ctls = list(type(tm).controllers.values())
        if mp.controller >= len(ctls):
            continue
        tc = ctls[mp.controller]
        ud.value_type = tc.instance_value_type(tm)
        ud.default = tc.default
        m.controller_values[ud.name] = tm.controller_values[tc.name]
    for i in range(n):
        ud = m.user_defined[i]
        t = ud.value_type
        if isinstance(t, Range):
            v = H.int(f"{pfx}ud{i + 1}", t.min, t.max)
        elif t is bool:
            v = H.bool(f"{pfx}ud{i + 1}")
        else:
            v = m.controller_values[ud.name]  # enum target: the member copied from the embedded module
        m.controller_values[ud.name] = v
    for i in (0, 1, n - 1, 40):
        if 0 <= i < n:
            m.user_defined[i].label = ["Cutoff", "ünï ☃", "x" * 40, "a b"][i % 4]
    for name in ("volume", "input_module", "bpm", "tpl"):
        t = MetaModule.controllers[name].value_type
        m.controller_values[name] = H.int(pfx + name, t.min, t.max)
    for name, o in MetaModule.options.items():
        if name != "user_defined_controllers":
            m.option_values[name] = H.bool(pfx + "opt." + name)
    return m


def stored_values(m):
    """The MetaModule's own controller values (and, recursively, those of nested MetaModules) as they are BEFORE
    a save: the writer must neither change them nor write anything else."""
    out = {"self": dict(m.controller_values)}
    for x in m.project.modules:
        if isinstance(x, MetaModule):
            out[x.index] = stored_values(x)
    return out


def check_metamodule(H, m, q, n, tag="mm", depth=1, stored=None):
    H.check(f"{tag}.is_metamodule", type(q) is MetaModule)
    if type(q) is not MetaModule:
        return
    if stored is not None:
        # expected values are the ones taken before the save; the live object must still hold them
        for name, v in stored["self"].items():
            H.check(f"{tag}.saving_leaves_stored_value_untouched[{name}]", H.eq(m.controller_values[name], v))
        m_values = stored["self"]
    else:
        m_values = m.controller_values
    H.check(f"{tag}.user_defined_controllers", q.user_defined_controllers == n)
    H.check(f"{tag}.exactly_first_n_exposed", [ud.attached(q) for ud in q.user_defined] == [i < n for i in range(96)])
    for name in ("volume", "input_module", "play_patterns", "bpm", "tpl"):
        H.check(f"{tag}.ctl[{name}]", H.eq(q.controller_values[name], m_values[name]))
    for i in range(n):
        name = f"user_defined_{i + 1}"
        H.check(f"{tag}.{name}", H.eq(q.controller_values[name], m_values[name]))
        H.check(f"{tag}.{name}.via_attribute", H.eq(H.getattr(q, name), m_values[name]))
    H.check(f"{tag}.mappings", H.eq([(x.module, x.controller) for x in q.mappings.values], [(x.module, x.controller) for x in m.mappings.values]))
    H.check(f"{tag}.labels", [ud.label for ud in q.user_defined[:n]] == [ud.label for ud in m.user_defined[:n]])
    for name in MetaModule.options:
        H.check(f"{tag}.opt[{name}]", H.eq(q.option_values[name], m.option_values[name]))
    # embedded project, with the guarantees of C01
    a, b = m.project, q.project
    H.check(f"{tag}.inner.is_project_owned_by_metamodule", type(b) is Project)
    H.check(f"{tag}.inner.bpm", b.initial_bpm == a.initial_bpm)
    H.check(f"{tag}.inner.module_classes", [type(x) for x in b.modules] == [type(x) for x in a.modules])
    for x, y in zip(a.modules, b.modules):
        if x is None or type(x) is not type(y):
            continue
        if isinstance(x, MetaModule):
            if depth < 3:
                check_metamodule(H, x, y, x.user_defined_controllers, tag + ".deep", depth + 1,
                                 stored=stored.get(x.index) if stored is not None else None)
            continue
        rw.check_controllers(H, x, y, f"{tag}.inner[{x.index}]")
        H.check(f"{tag}.inner[{x.index}].name", y.name == x.name)
    H.check(f"{tag}.inner.patterns", len(b.patterns) == len(a.patterns))
    if len(b.patterns) == len(a.patterns) and a.patterns:
        rw.check_note(H, a.patterns[0].data[0][0], b.patterns[0].data[0][0], f"{tag}.inner.cell")


def _count_cases(tier):
    ns = [0, 1, 2, 5, 27, 96] if tier == "quick" else list(range(0, 97))
    out = []
    for n in ns:
        for ctx in ("synth", "project"):
            out.append((f"n={n},{ctx}", (n, ctx, False)))
    out.append(("nested,n=3,synth", (3, "synth", True)))
    out.append(("nested,n=3,project", (3, "project", True)))
    out.append(("hole_before_targets,n=5,synth", (5, "synth", "hole")))
    out.append(("hole_before_targets,n=5,project", (5, "project", "hole")))
    out.append(("lowered_6_to_2,synth", (2, "synth", "lowered")))
    out.append(("lowered_6_to_2,project", (2, "project", "lowered")))
    return out


@contract("metamodule_roundtrip", ["C15", "C02", "C01", "C03", "C05"], targets=_T, cases=_count_cases)
def metamodule_roundtrip(H, case):
    """MetaModule with n exposed user controllers in either context: after save + load the count, the
    exposure of exactly the first n, every mapping slot, every label, every stored user-controller
    value (also through attribute access), the fixed controllers, the options and the embedded project
    (its modules' controllers, its pattern cells, a nested MetaModule) are preserved; the file carries
    exactly 5 + n controller values."""
    n, ctx, nested = case
    if nested == "lowered":
        m = build_metamodule(H, n, raised_to=6)
    elif nested == "hole":
        m = build_metamodule(H, n, hole=True)
    else:
        m = build_metamodule(H, n, nested=nested)
    H.check("in_memory_exactly_first_n_exposed", [ud.attached(m) for ud in m.user_defined] == [i < n for i in range(96)])
    stored = stored_values(m)  # taken BEFORE the save: a writer that "refreshes" the object it saves must not go unnoticed
    if ctx == "synth":
        data = rw.write_container(H, Synth(m))
        q = rw.read_back(H, data).module
        sect = F.parse_stream(data)
    else:
        p = Project()
        p.attach_module(m)
        data = rw.write_container(H, p)
        q = rw.read_back(H, data).modules[1]
        chunks = F.parse_stream(data)
        idx = [i for i, c in enumerate(chunks) if bytes(c[0]) == b"SFFF"][1]
        sect = chunks[idx:]
    ids = [bytes(c[0]) for c in sect]
    H.check("file_has_5_plus_n_controller_values", ids.count(b"CVAL") == 5 + n)
    cm = [c[1] for c in sect if bytes(c[0]) == b"CMID"]
    H.check("file_has_8_binding_bytes_per_value", len(cm) == 1 and len(cm[0]) == 8 * (5 + n))
    # documented offset convention for the user-defined controllers' stored values (C03)
    cvals = [c[1] for c in sect if bytes(c[0]) == b"CVAL"]
    for i in range(n):
        ud = m.user_defined[i]
        t = ud.value_type
        v = stored["self"][ud.name]
        if isinstance(t, Range):
            want = v - t.min if t.min < 0 else v
        elif t is bool:
            want = H.ite(v, 1, 0)
        else:
            want = getattr(v, "value", v)
        if 5 + i < len(cvals):
            H.check(f"CVAL[user_defined_{i + 1}].documented_stored_value", F.dec_i32(cvals[5 + i]) == want)
    chnk = [F.dec_u32(c[1]) for c in sect if bytes(c[0]) == b"CHNK"]
    H.check("chnk_above_every_chunk_number", len(chnk) == 1 and all(F.dec_u32(c[1]) < chnk[0] for c in sect if bytes(c[0]) == b"CHNM"))
    check_metamodule(H, m, q, n, stored=stored)
    H.cover("reached")


def _binding_cases(tier):
    return [("n=3,synth", (3, "synth")), ("n=3,project", (3, "project")), ("n=96,synth", (96, "synth"))]


@contract("metamodule_bindings_roundtrip", ["C15", "C02", "C01", "C04"], targets=_T + ["rv.modules.module:Module.load_cmid"], cases=_binding_cases)
def metamodule_bindings_roundtrip(H, case):
    """Controller MIDI bindings of the fixed AND of the exposed user-defined controllers survive."""
    n, ctx = case
    m = build_metamodule(H, n)
    from rv.cmidmap import MidiMessageType, Slope

    rw.sym_midi_maps(H, m, fixed={"user_defined_1": (MidiMessageType.control_change, Slope.exp2),
                                  f"user_defined_{n}": (MidiMessageType.pitch_bend, Slope.toggle),
                                  "volume": (MidiMessageType.nrpn, Slope.cut)})
    if ctx == "synth":
        q = rw.read_back(H, rw.write_container(H, Synth(m))).module
    else:
        p = Project()
        p.attach_module(m)
        q = rw.read_back(H, rw.write_container(H, p)).modules[1]
    rw.check_midi_maps(H, m, q)
    H.cover("reached")


@contract("identical_metamodules_stay_independent", ["C15", "C17", "C06"], targets=_T, cases=lambda tier: [("project", "project"), ("nested", "nested")])
def identical_metamodules_stay_independent(H, where):
    """Two MetaModules with byte-identical embedded projects in one container (a project, or the
    embedded project of an outer MetaModule): after loading, editing the embedded project of the first
    and saving, the reloaded second one is unchanged and the first shows the edit."""
    def make():
        mm = MetaModule()
        mm.project.new_module(Amplifier, name="inner amp")
        return mm

    p = Project()
    if where == "project":
        p.attach_module(make())
        p.attach_module(make())
        get = lambda proj: (proj.modules[1], proj.modules[2])  # noqa
    else:
        outer = MetaModule()
        outer.project.attach_module(make())
        outer.project.attach_module(make())
        p.attach_module(outer)
        get = lambda proj: (proj.modules[1].project.modules[1], proj.modules[1].project.modules[2])  # noqa
    q = rw.read_back(H, rw.write_container(H, p))
    a, b = get(q)
    H.check("distinct_embedded_projects_after_load", a.project is not b.project)
    v = H.int("new_volume", 0, 1024)
    a.project.modules[1].controller_values["volume"] = v
    r = rw.read_back(H, rw.write_container(H, q))
    a2, b2 = get(r)
    H.check("edited_embedded_project_saved", a2.project.modules[1].controller_values["volume"] == v)
    H.check("other_embedded_project_unchanged", b2.project.modules[1].controller_values["volume"] == 256)
    H.cover("reached")


@contract("metamodule_canary", ["C15"], targets=["rv.modules.metamodule:MetaModule.specialized_iff_chunks"], canary=True)
def metamodule_canary(H, _):
    """False claim: a label survives also beyond the exposed controllers (labels of hidden controllers are not written)."""
    m = MetaModule()
    m.user_defined_controllers = 1
    m.user_defined[0].label = "kept"
    m.user_defined[1].label = "hidden"
    k = H.choice("which", [0, 1])
    q = H.call(m.clone)
    H.check("canary_every_label_survives", q.user_defined[k].label == m.user_defined[k].label)


def _edit_cases(tier):
    out = []
    for i, what in enumerate(["negative_min_range", "bool", "enum", "plain_range", "unset", "missing_module"]):
        for ctx in ("synth", "project"):
            if tier == "quick" and ctx == "project" and i not in (0, 4):
                continue
            out.append((f"ud{i + 1}={what},{ctx}", (i, ctx)))
    return out


def _inner_state(mm):
    return {(mod.index, name): v for mod in mm.project.modules if mod is not None and not isinstance(mod, MetaModule)
            for name, v in mod.controller_values.items()}


@contract("edit_user_defined_after_load", ["C06", "C15"], targets=_T + ["rv.modules.metamodule:MetaModule.on_controller_changed"], cases=_edit_cases)
def edit_user_defined_after_load(H, case):
    """A loaded MetaModule with six exposed user-defined controllers (mapped onto a negative-minimum
    range, a bool, an enum, a plain range, nothing, and a module that does not exist): assigning ANY
    in-domain value to one of them through the attribute does not raise; after save + load that
    controller shows the value, the embedded controller it is mapped to shows it too, and every other
    embedded controller and every other user-defined controller is as it was."""
    i, ctx = case
    m = build_metamodule(H, 6)
    if ctx == "synth":
        box = rw.read_back(H, rw.write_container(H, Synth(m)))
        get = lambda b: b.module  # noqa
    else:
        p = Project()
        p.attach_module(m)
        box = rw.read_back(H, rw.write_container(H, p))
        get = lambda b: b.modules[1]  # noqa
    q = get(box)
    H.check("loaded", type(q) is MetaModule and q.user_defined_controllers == 6)
    if type(q) is not MetaModule:
        return
    name = f"user_defined_{i + 1}"
    t = q.user_defined[i].value_type
    if isinstance(t, Range):
        v = H.int("new_value", t.min, t.max)
    elif t is bool:
        v = H.bool("new_value")
    else:
        v = H.choice("new_value", list(t))
    inner_before = _inner_state(q)
    own_before = {k: x for k, x in q.controller_values.items() if k != name}
    exc, _ = H.raises(H.setattr, q, name, v)
    H.check("assignment_does_not_raise", exc is None)
    if exc is not None:
        return
    r = get(rw.read_back(H, rw.write_container(H, box)))
    H.check("edited_value_is_what_gets_saved", H.eq(r.controller_values[name], v))
    mod_i, ctl_i = TARGETS[i]
    target = None
    if 0 < mod_i < len(q.project.modules):
        tm = q.project.modules[mod_i]
        target = (tm.index, list(type(tm).controllers)[ctl_i])
    inner_after = _inner_state(r)
    H.check("same_embedded_controllers", set(inner_after) == set(inner_before))
    for k in inner_before:
        if k == target:
            H.check("mapped_embedded_controller_shows_the_value", H.eq(inner_after.get(k), v))
        else:
            H.check(f"embedded[{k[0]}].{k[1]}.untouched", H.eq(inner_after.get(k), inner_before[k]))
    for k, x in own_before.items():
        if k in r.controller_values and (not k.startswith("user_defined_") or int(k.rsplit("_", 1)[1]) <= 6):
            H.check(f"own[{k}].untouched", H.eq(r.controller_values[k], x))
    H.cover("reached")


def _embedded_cases(tier):
    return [(n, n) for n in ("volume", "balance", "dc_offset", "inverse")]


@contract("embedded_assignment_with_mappings", ["C09", "C15"], cases=_embedded_cases,
          targets=["rv.modules.metamodule:MetaModule.on_embedded_controller_changed", "rv.modules.metamodule:MetaModule.on_controller_changed",
                   "rv.project:Project.on_controller_changed", "rv.controller:Controller.propagate"])
def embedded_assignment_with_mappings(H, cname):
    """A module inside a MetaModule whose user-defined controllers are mapped onto two of its
    controllers (balance, volume): assigning any in-range value to one of its controllers does not
    raise, reads back exactly, and leaves its other controllers as they were (strict mode)."""
    mm = MetaModule()
    amp = mm.project.new_module(Amplifier)
    mm.user_defined_controllers = 2
    mm.mappings.values[0] = MetaModule.Mapping((amp.index, _ctl_index(Amplifier, "balance")))
    mm.mappings.values[1] = MetaModule.Mapping((amp.index, _ctl_index(Amplifier, "volume")))
    MetaModule.MappingArray.update_user_defined_controllers(mm)
    K.strict()
    v, _t = K.sym_value_in_domain(H, amp, cname)
    before = {k: x for k, x in amp.controller_values.items() if k != cname}
    exc, _ = H.raises(H.setattr, amp, cname, v)
    H.check("in_range_assignment_does_not_raise", exc is None)
    if exc is not None:
        return
    H.check("reads_back", H.eq(H.getattr(amp, cname), v))
    H.check("other_controllers_untouched", H.eq({k: x for k, x in amp.controller_values.items() if k != cname}, before))
    H.cover("reached")


@contract("short_mapping_chunk_is_padded_independently", ["C15", "C04", "C17"],
          targets=["rv.modules.metamodule:MetaModule.MappingArray._set_bytes", "rv.chunks.array:ArrayChunk._set_bytes",
                   "rv.modules.metamodule:MetaModule.MappingArray.encoded_values"],
          cases=lambda tier: [("64_entries", 64), ("3_entries", 3)] + ([("95_entries", 95)] if tier == "thorough" else []))
def short_mapping_chunk_is_padded_independently(H, k):
    """A MetaModule file whose mapping chunk carries only k < 96 entries (the documented layout has 64):
    the loader keeps those k, pads with unset (0, 0) mappings up to 96, and every slot is its own
    object - editing ONE padded mapping in place (any 16-bit target) changes exactly that mapping in
    what gets saved."""
    m = MetaModule()
    m.project.new_module(Amplifier, name="inner amp")
    m.user_defined_controllers = 2
    m.mappings.values[0] = MetaModule.Mapping((1, 0))
    m.mappings.values[1] = MetaModule.Mapping((H.int("file.map1.module", 0, 0xFFFF), H.int("file.map1.ctl", 0, 0xFFFF)))
    chunks = F.parse_stream(rw.write_container(H, Synth(m)))
    idx = [i for i, c in enumerate(chunks) if bytes(c[0]) == b"CHNM" and F.dec_u32(c[1]) == 1]
    H.check("written_file_has_mapping_chunk", len(idx) == 1 and bytes(chunks[idx[0] + 1][0]) == b"CHDT" and len(chunks[idx[0] + 1][1]) == 96 * 4)
    if len(idx) != 1:
        return
    i = idx[0] + 1
    short = chunks[:i] + [(chunks[i][0], chunks[i][1][: k * 4])] + chunks[i + 1:]
    q = rw.read_back(H, rw.join([F.frame(bytes(c), d) for c, d in short])).module
    vals = q.mappings.values
    H.check("padded_to_96", len(vals) == 96)
    if len(vals) != 96:
        return
    H.check("carried_entries_kept", H.eq([(x.module, x.controller) for x in vals[:2]], [(x.module, x.controller) for x in m.mappings.values[:2]]))
    H.check("padding_is_unset", all((x.module, x.controller) == (0, 0) for x in vals[k:]))
    H.check("every_slot_is_its_own_object", len({id(x) for x in vals}) == 96)
    j = H.choice("edited_slot", [k, min(95, k + 2), 95])
    nm, nc = H.int("new.module", 0, 0xFFFF), H.int("new.ctl", 0, 0xFFFF)
    before = [(x.module, x.controller) for x in vals]
    vals[j].module, vals[j].controller = nm, nc
    r = rw.read_back(H, rw.write_container(H, Synth(q))).module
    after = [(x.module, x.controller) for x in r.mappings.values]
    H.check("edited_mapping_saved", H.eq(after[j], (nm, nc)))
    H.check("every_other_mapping_untouched", H.eq(after[:j] + after[j + 1:], before[:j] + before[j + 1:]))
    H.cover("reached")


@contract("edit_embedded_target_after_load", ["C06", "C15"], targets=_T + ["rv.modules.module:Module.set_raw", "rv.modules.metamodule:MetaModule.on_controller_changed"],
          cases=lambda tier: [("synth", "synth"), ("project", "project")])
def edit_embedded_target_after_load(H, ctx):
    """A loaded MetaModule whose user-defined controllers are mapped onto embedded controllers: editing
    the EMBEDDED controller directly (any in-range value) and saving gives a file that shows the new
    value there - the value the user-defined controller had in the old file is not replayed over it -
    and every other embedded controller is as it was."""
    m = build_metamodule(H, 4)
    if ctx == "synth":
        box = rw.read_back(H, rw.write_container(H, Synth(m)))
        get = lambda b: b.module  # noqa
    else:
        p = Project()
        p.attach_module(m)
        box = rw.read_back(H, rw.write_container(H, p))
        get = lambda b: b.modules[1]  # noqa
    q = get(box)
    amp = q.project.modules[1]
    which = H.choice("edited", ["balance", "volume"])
    t = type(amp).controllers[which].value_type
    v = H.int("new_value", t.min, t.max)
    before = _inner_state(q)
    H.setattr(amp, which, v)
    r = get(rw.read_back(H, rw.write_container(H, box)))
    after = _inner_state(r)
    for k in before:
        if k == (amp.index, which):
            H.check("edited_embedded_controller_is_what_gets_saved", H.eq(after.get(k), v))
        else:
            H.check(f"embedded[{k[0]}].{k[1]}.untouched", H.eq(after.get(k), before[k]))
    H.cover("reached")


@contract("metamodules_with_different_counts_in_one_project", ["C15", "C01", "C03"], targets=_T,
          cases=lambda tier: [("1,4,0", (1, 4, 0)), ("3,0,2", (3, 0, 2))])
def metamodules_with_different_counts_in_one_project(H, counts):
    """Several MetaModules with DIFFERENT numbers of user-defined controllers side by side in one project:
    each is written with exactly 5 + its own n controller values, and each comes back with its own count,
    values, mappings and labels."""
    p = Project()
    mods = []
    for j, n in enumerate(counts):
        m = build_metamodule(H, n, pfx=f"mm{j}.")
        p.attach_module(m)
        mods.append(m)
    data = rw.write_container(H, p)
    chunks = F.parse_stream(data)
    starts = [i for i, c in enumerate(chunks) if bytes(c[0]) == b"SFFF"]
    for j, (m, n) in enumerate(zip(mods, counts)):
        lo = starts[j + 1]
        hi = starts[j + 2] if j + 2 < len(starts) else len(chunks)
        # the section of this module ends at its first SEND (the embedded project is inside a CHDT)
        sect = []
        for c in chunks[lo:hi]:
            sect.append(c)
            if bytes(c[0]) == b"SEND":
                break
        H.check(f"mm{j}.file_has_5_plus_n_controller_values", [bytes(c[0]) for c in sect].count(b"CVAL") == 5 + n)
    q = rw.read_back(H, data)
    for j, (m, n) in enumerate(zip(mods, counts)):
        check_metamodule(H, m, q.modules[j + 1], n, tag=f"mm{j}")
    H.cover("reached")


@contract("out_of_range_values_load_leniently_around_nested_loads", ["C15", "C05", "C18"],
          targets=_T + ["rv.errors:override_raise_controller_value_errors", "rv.readers.reader:read_sunvox_file", "rv.modules.module:Module.set_raw"],
          cases=lambda tier: [("synth", "synth"), ("project", "project")])
def out_of_range_values_load_leniently_around_nested_loads(H, ctx):
    """A file in which the MetaModule's own 'volume' (and, in a project, the volume of a module that comes
    AFTER the MetaModule) holds a stored value outside the declared range: loading still succeeds - the
    nested load of the embedded project must not switch strict validation back on for the rest of the
    outer load - the values are kept, and strict mode is in force again afterwards."""
    import rv.errors

    m = MetaModule()
    m.project.new_module(Amplifier, name="inner amp")
    m.user_defined_controllers = 1
    big = H.int("stored_volume", 1025, 2**31 - 1)
    if ctx == "synth":
        chunks = F.parse_stream(rw.write_container(H, Synth(m)))
    else:
        p = Project()
        p.attach_module(m)
        p.new_module(Amplifier, name="after the metamodule")
        chunks = F.parse_stream(rw.write_container(H, p))
    # first CVAL of the MetaModule section = its 'volume'; in the project also the first CVAL of the module after it
    styp = [i for i, c in enumerate(chunks) if bytes(c[0]) == b"STYP"]
    targets = []
    for s0 in styp:
        name = bytes(chunks[s0][1]).split(bytes([0]))[0]
        nxt = next(i for i in range(s0, len(chunks)) if bytes(chunks[i][0]) == b"CVAL")
        if name == b"MetaModule" or (ctx == "project" and name == b"Amplifier"):
            targets.append(nxt)
    edited = [(c, F.enc_i32(big) if i in targets else d) for i, (c, d) in enumerate(chunks)]
    K.strict()
    exc, box = H.raises(rw.read_back, H, rw.join([F.frame(bytes(c), d) for c, d in edited]))
    H.check("file_with_out_of_range_values_loads", exc is None)
    H.check("strict_mode_in_force_after_the_load", rv.errors.RAISE_CONTROLLER_VALUE_ERRORS is True)
    if exc is not None:
        return
    q = box.module if ctx == "synth" else box.modules[1]
    H.check("metamodule_volume_kept", H.eq(q.controller_values["volume"], big))
    if ctx == "project":
        H.check("later_module_volume_kept", H.eq(box.modules[2].controller_values["volume"], big))
    H.cover("reached")
