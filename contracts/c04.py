"""C04 - loading decodes foreign files per the format and skips unknown chunks."""
from __future__ import annotations

import glob
import os

from rv.controller import DependentRange, NoOffsetRange, Range
from rv.modules.output import Output
from rv.pattern import Pattern
from rv.project import Project
from rv.synth import Synth
from rvproof.contract import contract
from spec import format as F

from . import common as K
from . import rw

TECHNIQUE = "contract-based deductive verification (symbolic execution of the real readers on reference-encoder streams, z3/cvc5); fixtures and string payload catalogue as labelled run-time contract evaluation (bounded)"
LEVEL = "other"
LEVEL_TEXT = (
    "Mixed: the reader is symbolically executed on streams produced by an independent reference encoder (spec/format.py) from symbolic "
    "abstract descriptions - every decoded field, default, skipped unknown chunk and module position is a discharged obligation for all "
    "values; the part of the property that quantifies over the 53 shipped fixture files and their structure-preserving edits is by nature "
    "an enumeration of concrete files and is done as run-time contract evaluation (bounded_parts, not counted as proved)."
)
ASSUMPTIONS = [
    "reference encoder = spec/format.py (doc + YAML), sharing no code with rv",
    "stream SHAPES (which chunks, how many CVALs, where the unknown chunk sits) are enumerated: quick = boundary positions, thorough = every position; VALUES are symbolic",
    "unknown ids are 4 printable ASCII characters that name no process_<id> attribute of the reader classes (a ground obligation checks the ids used; ids colliding with non-handler attributes are excluded)",
]
EXPLANATION = LEVEL_TEXT
_T = ["rv.readers.reader:read_sunvox_file", "rv.readers.reader:Reader.process_chunks", "rv.readers.reader:Reader.rewind",
      "rv.lib.iff:chunks", "rv._vendor.chunk:Chunk.__init__", "rv._vendor.chunk:Chunk.read", "rv._vendor.chunk:Chunk.skip",
      "rv.readers.initial:InitialReader.*", "rv.readers.sunvox:SunVoxReader.process_*", "rv.readers.sunsynth:SunSynthReader.process_*",
      "rv.readers.module:ModuleReader.process_*", "rv.readers.pattern:PatternReader.process_*",
      "rv.readers.pattern:PatternCloneReader.process_*", "rv.project:Project.attach_module", "rv.modules.module:Module.set_raw"]

UNKNOWN_ID = b"zQx7"
# four bytes that are no documented chunk id (the documented ones are upper-case ASCII, space-padded on the right)
ODD_UNKNOWN_IDS = [b"BPM\t", b"BPM\n", b" BPM", b"\tBPM", b"GVOL"[:3] + b"\x0b", b"\xff\xfeAB", b"\x00\x00\x00\x01", b"caf\xc3"]


def _class_cases(tier):
    # a Sampler section without its instrument record (CHNM 0) is not a well-formed Sampler: the record
    # is "applicable" module-specific data, not an optional chunk; Sampler decoding is covered by C16
    return [(K.cls_id(c), K.cls_id(c)) for c in K.module_classes() if c.mtype not in ("Output", "Sampler")]


def _describe_module(H, cls, pfx="d."):
    """Abstract description of a module section with symbolic values (not a Module object)."""
    d = {
        "flags": H.int(pfx + "flags", *K.U32),
        "name": "foreign name",
        "finetune": H.int(pfx + "finetune", *K.I32),
        "relnote": H.int(pfx + "relnote", *K.I32),
        "x": H.int(pfx + "x", *K.I32), "y": H.int(pfx + "y", *K.I32), "layer": H.int(pfx + "layer", 0, 7),
        "scale": H.int(pfx + "scale", *K.U32),
        "vis": H.int(pfx + "vis", *K.U32),
        "color": tuple(H.int(f"{pfx}color{i}", 0, 255) for i in range(3)),
        "always": H.bool(pfx + "always"), "channel": H.int(pfx + "channel", 0, 2**31 - 1),
        "mic": H.int(pfx + "mic", 0, 16), "mib": H.int(pfx + "mib", *K.I32), "mip": H.int(pfx + "mip", *K.I32),
    }
    return d


def _module_chunks(d, mtype, in_project, cvals, cmid=None):
    out = [(b"SFFF", F.enc_u32(d["flags"])), (b"SNAM", F.enc_name32(d["name"]))]
    if mtype != "Output":
        out.append((b"STYP", F.enc_cstring(mtype)))
    out += [(b"SFIN", F.enc_i32(d["finetune"])), (b"SREL", F.enc_i32(d["relnote"]))]
    if in_project:
        out += [(b"SXXX", F.enc_i32(d["x"])), (b"SYYY", F.enc_i32(d["y"])), (b"SZZZ", F.enc_i32(d["layer"]))]
    out.append((b"SSCL", F.enc_u32(d["scale"])))
    if in_project:
        out.append((b"SVPR", F.enc_u32(d["vis"])))
    out += [(b"SCOL", F.enc_rgb(d["color"])), (b"SMII", F.enc_midi_in(d["always"], d["channel"])),
            (b"SMIC", F.enc_u32(d["mic"])), (b"SMIB", F.enc_i32(d["mib"])), (b"SMIP", F.enc_i32(d["mip"]))]
    if in_project:
        out.append((b"SLNK", b""))
    for raw in cvals:
        out.append((b"CVAL", F.enc_i32(raw)))
    if cmid is not None:
        out.append((b"CMID", cmid))
    out.append((b"SEND", b""))
    return out


def _stream(chunks):
    data = b""
    for cid, payload in chunks:
        data = data + F.frame(cid, payload)
    return data


def _check_described_module(H, d, m, in_project, tag="mod"):
    cls = type(m)
    H.check(f"{tag}.flags_include_file_flags_and_defaults", m.flags == (d["flags"] | cls.default_flags))
    H.check(f"{tag}.name", m.name == (d["name"] if not isinstance(m, Output) else "Output"))
    H.check(f"{tag}.finetune", m.mod_finetune == d["finetune"])
    H.check(f"{tag}.relative_note", m.mod_relative_note == d["relnote"])
    if in_project:
        H.check(f"{tag}.x_y_layer", H.and_(m.x == d["x"], m.y == d["y"], m.layer == d["layer"]))
        H.check(f"{tag}.visualization", m._visualization == d["vis"])
    if "scale" not in cls.controllers:
        H.check(f"{tag}.scale", m.scale == d["scale"])
    H.check(f"{tag}.color", H.eq(tuple(m.color), d["color"]))
    H.check(f"{tag}.midi_in", H.and_(H.eq(m.midi_in_always, d["always"]), m.midi_in_channel == d["channel"]))
    H.check(f"{tag}.midi_out", H.and_(m.midi_out_channel == d["mic"], m.midi_out_bank == d["mib"], m.midi_out_program == d["mip"]))
    H.check(f"{tag}.midi_out_name_default", m.midi_out_name is None)


def _stored_to_value(H, t, raw):
    if isinstance(t, Range):
        return raw if (isinstance(t, NoOffsetRange) or t.min >= 0) else raw + t.min
    if t is bool:
        return raw != 0
    return None


def _cval_counts(cls, tier):
    n = len([1 for c in cls.controllers.values() if c._attached and not getattr(c, "index", None)])
    attached = [nm for nm, c in cls.controllers.items() if c._attached and not nm.startswith("user_defined_")]
    n = len(attached)
    ks = sorted({0, 1, n - 1, n} & set(range(0, n + 1))) if tier == "quick" else list(range(0, n + 1))
    return attached, ks


@contract("foreign_synth_decodes", ["C04"], targets=_T, cases=_class_cases)
def foreign_synth_decodes(H, cname):
    """A .sunsynth stream built by the reference encoder from a symbolic description, carrying only the
    first k of the type's n controller values (k case-split), with one unknown chunk inserted at a
    case-split position: every field has the value its documented encoding denotes, controllers
    k+1..n keep their defaults, absent optional chunks leave defaults, the unknown chunk changes nothing."""
    cls = K.class_by_name(cname)
    tier = getattr(H, "tier", "quick")
    attached, ks = _cval_counts(cls, tier)
    k = H.choice("cvals_present", ks)
    d = _describe_module(H, cls)
    fresh = cls()
    raws = []
    expect = {}
    # CVALs are applied last-to-first, so a dependant is validated under the unit loaded from the file
    for i, name in enumerate(attached[:k]):
        ctl = cls.controllers[name]
        t = ctl.value_type
        if isinstance(t, DependentRange):
            t = t.default if attached.index(t.ctl_name) >= k else t.range_map[cls.controllers[t.ctl_name].default]
        if isinstance(t, Range):
            v = H.int(f"cv.{name}", t.min, t.max)
            raws.append(v if (isinstance(t, NoOffsetRange) or t.min >= 0) else v - t.min)
            expect[name] = v
        elif t is bool:
            b = H.bool(f"cv.{name}")
            raws.append(H.ite(b, 1, 0))
            expect[name] = b
        else:
            dflt = ctl.default
            raws.append(dflt.value)
            expect[name] = dflt
    # controller MIDI bindings: one 8-byte record per controller value present, symbolic numbers
    from rv.cmidmap import MidiMessageType, Slope

    binds = []
    for i, name in enumerate(attached[:k]):
        mt = [MidiMessageType.unset, MidiMessageType.control_change, MidiMessageType.rpn][i % 3]
        sl = [Slope.linear, Slope.s_curve, Slope.toggle][i % 3]
        binds.append((mt, H.int(f"cm.{name}.ch", 0, 255), sl, H.int(f"cm.{name}.par", 0, 0xFFFF)))
    cmid = rw.join([F.enc_cmid(mt.value, ch, sl.value, par) for mt, ch, sl, par in binds]) if binds else None
    chunks = [(b"SSYN", b""), (b"VERS", F.enc_version((2, 1, 2, 1)))] + _module_chunks(d, cls.mtype, False, raws, cmid)
    if tier == "quick":
        positions = sorted({1, 2, len(chunks) // 2, len(chunks) - 1})
    elif k == len(attached):
        positions = list(range(1, len(chunks)))  # thorough: every position, for the complete CVAL list
    else:
        positions = [len(chunks) // 2]  # thorough: every truncation length, one position each (no product)
    pos = H.choice("unknown_chunk_at", [None] + positions)
    if pos is not None:
        chunks = chunks[:pos] + [(UNKNOWN_ID, H.bytes("junk", 3))] + chunks[pos:]
    s = rw.read_back(H, _stream(chunks))
    H.check("is_synth", type(s) is Synth)
    m = s.module
    H.check("class_from_STYP", type(m) is cls)
    _check_described_module(H, d, m, False)
    for name in attached:
        if name in expect:
            H.check(f"cval[{name}].decoded", H.eq(m.controller_values[name], expect[name]))
        else:
            H.check(f"cval[{name}].default_kept", H.eq(m.controller_values[name], fresh.controller_values[name]))
    for name in cls.options:
        H.check(f"option[{name}].default_kept", H.eq(m.option_values[name], fresh.option_values[name]))
    for (mt, ch, sl, par), name in zip(binds, attached[:k]):
        b = m.controller_midi_maps[name]
        H.check(f"cmid[{name}].decoded", H.and_(b.message_type == mt, H.eq(b.channel, ch), b.slope == sl, H.eq(b.message_parameter, par)))
    for name in attached[k:]:
        b = m.controller_midi_maps[name]
        H.check(f"cmid[{name}].default_kept", b.message_type == MidiMessageType.unset and b.channel == 0)
    H.cover("reached")


_HEADER = [c for c in F.PROJECT_CHUNKS if c[0] != "SFGS"]


def _project_desc(H):
    d = {}
    for cid, attr, kind, _ in F.PROJECT_CHUNKS:
        if kind == "u32":
            d[attr] = H.int("h." + attr, *K.U32)
        elif kind == "i32":
            d[attr] = H.int("h." + attr, *K.I32)
        elif kind == "version":
            d[attr] = tuple(H.int(f"h.{attr}{i}", 0, 255) for i in range(4))
        elif kind == "cstring":
            d[attr] = "a foreign project"
    d["sync_midi"] = H.int("h.sync_midi", 0, 7)
    d["sync_other"] = H.int("h.sync_other", 0, 7)
    return d


def _project_header_chunks(d, drop=None, order=None):
    out = []
    for cid, attr, kind, _ in F.PROJECT_CHUNKS:
        if cid == drop:
            continue
        if kind == "sfgs":
            out.append((cid.encode(), F.enc_sfgs(d["sync_midi"], d["sync_other"])))
        else:
            out.append((cid.encode(), F.codec(kind)[0](d[attr])))
    if order == "reversed":
        out.reverse()
    elif isinstance(order, int):
        out = out[order:] + out[:order]
    return out


def _header_cases(tier):
    ids = [c[0] for c in F.PROJECT_CHUNKS]
    cases = [("all_present", (None, None)), ("reversed_order", (None, "reversed"))]
    rots = [len(ids) // 2] if tier == "quick" else [1, 3, len(ids) // 2, len(ids) - 1]
    cases += [(f"rotated_by_{k}", (None, k)) for k in rots]
    drops = ids if tier == "thorough" else ["BVER", "SFGS", "BPM ", "NAME", "TIME", "LGEN", "PATL"]
    for cid in drops:
        cases.append((f"without_{cid.strip()}", (cid, None)))
    return cases


@contract("foreign_project_header_decodes", ["C04"], targets=_T, cases=_header_cases)
def foreign_project_header_decodes(H, case):
    """Project header from the reference encoder (symbolic values): every field decodes; a dropped
    chunk leaves the documented default (BVER absent => 1.7.0.0); independent header chunks may come
    in any order; the module list is exactly the slots found."""
    drop, order = case
    d = _project_desc(H)
    out_d = {"flags": 0x43, "name": "Output", "finetune": 0, "relnote": 0, "x": 512, "y": 512, "layer": 0, "scale": 256,
             "vis": 0xC0101, "color": (255, 255, 255), "always": False, "channel": 0, "mic": 0, "mib": -1, "mip": -1}
    chunks = [(b"SVOX", b"")] + _project_header_chunks(d, drop, order) + _module_chunks(out_d, "Output", True, [])
    p = rw.read_back(H, _stream(chunks))
    H.check("is_project", type(p) is Project)
    fresh = Project()
    for cid, attr, kind, _ in F.PROJECT_CHUNKS:
        if kind == "sfgs":
            if cid == drop:
                H.check("SFGS.default_kept", p.receive_sync_midi == fresh.receive_sync_midi and p.receive_sync_other == fresh.receive_sync_other)
            else:
                H.check("SFGS.decoded", H.and_(p.receive_sync_midi == d["sync_midi"], p.receive_sync_other == d["sync_other"]))
            continue
        got = getattr(p, "loaded_sunvox_version" if attr == "sunvox_version" else attr)
        if cid == drop:
            want = (1, 7, 0, 0) if cid == "BVER" else getattr(fresh, "loaded_sunvox_version" if attr == "sunvox_version" else attr)
            H.check(f"{cid.strip()}.default_when_absent", H.eq(got, want))
        else:
            H.check(f"{cid.strip()}.decoded", H.eq(tuple(got) if kind == "version" else got, d[attr]))
    H.check("one_module_the_output", len(p.modules) == 1 and type(p.modules[0]) is Output)
    H.cover("reached")


def _slot_cases(tier):
    shapes = ["OeAeA", "OAee", "OeeA", "OA"] if tier == "quick" else ["OeAeA", "OAee", "OeeA", "OA", "OeAAeeA", "Oe", "OAeAe"]
    return [(s, s) for s in shapes]


@contract("module_positions_preserved", ["C04", "C14"], targets=_T + ["rv.readers.sunvox:SunVoxReader.process_end_of_file"], cases=_slot_cases)
def module_positions_preserved(H, shape):
    """Module slots in a foreign file (O = output, A = amplifier with a symbolic controller, e = empty
    slot): every module lands at the position it has in the file, empty positions stay empty (only
    trailing empties are dropped), index and parent agree with the position."""
    d0 = {"flags": 0x43, "name": "Output", "finetune": 0, "relnote": 0, "x": 512, "y": 512, "layer": 0, "scale": 256,
          "vis": 0xC0101, "color": (255, 255, 255), "always": False, "channel": 0, "mic": 0, "mib": -1, "mip": -1}
    chunks = [(b"SVOX", b""), (b"VERS", F.enc_version((2, 1, 2, 1)))]
    vols = {}
    for i, ch in enumerate(shape):
        if ch == "e":
            chunks.append((b"SEND", b""))
        elif ch == "O":
            chunks += _module_chunks(d0, "Output", True, [])
        else:
            vols[i] = H.int(f"vol{i}", 0, 1024)
            dd = dict(d0, name=f"amp{i}", flags=0x51)
            chunks += _module_chunks(dd, "Amplifier", True, [vols[i]])
    p = rw.read_back(H, _stream(chunks))
    want_len = len(shape.rstrip("e"))
    H.check("list_length_is_file_slots_minus_trailing_empties", len(p.modules) == want_len)
    for i, ch in enumerate(shape[:want_len]):
        m = p.modules[i] if i < len(p.modules) else "missing"
        if ch == "e":
            H.check(f"slot[{i}].empty", m is None)
        elif ch == "O":
            H.check(f"slot[{i}].output", type(m) is Output and m.index == i and m.parent is p)
        else:
            ok = m is not None and m != "missing" and type(m).__name__ == "Amplifier"
            H.check(f"slot[{i}].amplifier_here", ok)
            if ok:
                H.check(f"slot[{i}].value", m.controller_values["volume"] == vols[i])
                H.check(f"slot[{i}].index_parent", m.index == i and m.parent is p)
    H.cover("reached")


@contract("legacy_module_high_byte", ["C04", "C14", "C12"], targets=["rv.readers.sunvox:SunVoxReader.process_end_of_file",
                                                        "rv.readers.pattern:PatternReader.process_PEND", "rv.note:Note.raw_data (setter)"])
def legacy_module_high_byte(H, _):
    """A pattern cell's module number: files stamped with a version below 1.9.5.0 get the high byte
    cleared, all others keep the 16-bit value; version bytes and the cell are symbolic."""
    ver = tuple(H.int(f"ver{i}", 0, 255) for i in range(4))
    bver = tuple(H.int(f"bver{i}", 0, 255) for i in range(4))  # the based-on stamp must not matter
    with_bver = H.choice("BVER", ["present", "absent"])
    note, vel, ctl, val = H.int("note", 0, 255), H.int("vel", 0, 129), H.int("ctl", 0, 0xFFFF), H.int("val", 0, 0xFFFF)
    mod = H.int("module", 0, 0xFFFF)
    d0 = {"flags": 0x43, "name": "Output", "finetune": 0, "relnote": 0, "x": 512, "y": 512, "layer": 0, "scale": 256,
          "vis": 0xC0101, "color": (255, 255, 255), "always": False, "channel": 0, "mic": 0, "mib": -1, "mip": -1}
    chunks = [(b"SVOX", b""), (b"VERS", F.enc_version(ver))] + ([(b"BVER", F.enc_version(bver))] if with_bver == "present" else []) + [
              (b"PDTA", F.enc_note(note, vel, mod, ctl, val)), (b"PCHN", F.enc_u32(1)), (b"PLIN", F.enc_u32(1)), (b"PEND", b"")]
    chunks += _module_chunks(d0, "Output", True, [])
    p = rw.read_back(H, _stream(chunks))
    H.check("one_pattern", len(p.patterns) == 1 and type(p.patterns[0]) is Pattern)
    cell = p.patterns[0].data[0][0]
    # lexicographic version comparison, stated independently
    a, b, c, e = ver
    old = H.or_(a < 1, H.and_(a == 1, H.or_(b < 9, H.and_(b == 9, H.or_(c < 5, H.and_(c == 5, e < 0))))))
    H.check("module_number", cell.module == H.ite(old, mod % 256, mod))
    H.check("other_cell_fields", H.eq([cell.note, cell.vel, cell.ctl, cell.val], [note, vel, ctl, val]))
    H.check("loaded_version", H.eq(tuple(p.loaded_sunvox_version), ver))
    H.check("based_on_version", H.eq(tuple(p.based_on_version), bver if with_bver == "present" else (1, 7, 0, 0)))
    H.cover("reached")


def _pattern_stream_cases(tier):
    out = [("all_chunks", ("all", None)), ("without_PNME", ("noname", None)), ("unknown_chunk_inside_pattern", ("all", "pattern")),
           ("unknown_chunk_inside_clone", ("all", "clone"))]
    return out


@contract("foreign_patterns_decode", ["C04"], cases=_pattern_stream_cases,
          targets=["rv.readers.sunvox:SunVoxReader.process_PDTA", "rv.readers.sunvox:SunVoxReader.process_PPAR", "rv.readers.sunvox:SunVoxReader.process_PEND",
                   "rv.readers.pattern:PatternReader.process_*", "rv.readers.pattern:PatternCloneReader.process_*"])
def foreign_patterns_decode(H, case):
    """Pattern slots from the reference encoder: [pattern 2x1, empty, clone of slot 0, pattern 1x1] with
    every documented pattern / clone chunk holding a symbolic value of its documented width and
    signedness (PXXX / PYYY are signed): each public field decodes to the value the encoding denotes,
    slots keep their positions, an unknown chunk inside a slot changes nothing."""
    from rv.pattern import PatternClone

    variant, unknown_in = case
    vals = {}

    def pattern_chunks(pfx, lines, tracks, named):
        out = []
        cells = [[tuple(H.int(f"{pfx}c{l}_{t}.{f}", lo, hi) for f, (lo, hi) in (("note", (0, 255)), ("vel", (0, 129)), ("module", (0, 0xFFFF)), ("ctl", (0, 0xFFFF)), ("val", (0, 0xFFFF))))
                  for t in range(tracks)] for l in range(lines)]
        vals[pfx + "cells"] = cells
        for cid, attr, kind, cond in F.PATTERN_CHUNKS:
            if kind == "notes":
                out.append((b"PDTA", rw.join([F.enc_note(*c) for row in cells for c in row])))
            elif cid == "PNME":
                if named:
                    out.append((b"PNME", F.enc_cstring("foreign verse")))
            elif cid == "PCHN":
                out.append((b"PCHN", F.enc_u32(tracks)))
            elif cid == "PLIN":
                out.append((b"PLIN", F.enc_u32(lines)))
            elif kind == "u32":
                v = vals[pfx + attr] = H.int(pfx + attr, *K.U32)
                out.append((cid.encode(), F.enc_u32(v)))
            elif kind == "i32":
                v = vals[pfx + attr] = H.int(pfx + attr, *K.I32)
                out.append((cid.encode(), F.enc_i32(v)))
            elif kind == "rgb":
                v = vals[pfx + attr] = tuple(H.int(f"{pfx}{attr}{i}", 0, 255) for i in range(3))
                out.append((cid.encode(), F.enc_rgb(v)))
            elif kind == "bytes32":
                v = vals[pfx + attr] = H.bytes(pfx + attr, 32)
                out.append((cid.encode(), v))
        return out

    a = pattern_chunks("a.", 2, 1, variant != "noname")
    if unknown_in == "pattern":
        a.insert(3, (UNKNOWN_ID, b"\x01\x02\x03"))
    clone = []
    for cid, attr, kind, _ in F.CLONE_CHUNKS:
        if cid == "PPAR":
            clone.append((b"PPAR", F.enc_u32(0)))
        elif kind == "u32":
            v = vals["cl." + attr] = H.int("cl." + attr, *K.U32)
            clone.append((cid.encode(), F.enc_u32(v)))
        else:
            v = vals["cl." + attr] = H.int("cl." + attr, *K.I32)
            clone.append((cid.encode(), F.enc_i32(v)))
    if unknown_in == "clone":
        clone.insert(1, (UNKNOWN_ID, b"\x01\x02\x03"))
    b = pattern_chunks("b.", 1, 1, False)
    d0 = {"flags": 0x43, "name": "Output", "finetune": 0, "relnote": 0, "x": 512, "y": 512, "layer": 0, "scale": 256,
          "vis": 0xC0101, "color": (255, 255, 255), "always": False, "channel": 0, "mic": 0, "mib": -1, "mip": -1}
    chunks = ([(b"SVOX", b""), (b"VERS", F.enc_version((2, 1, 2, 1)))] + a + [(b"PEND", b"")] + [(b"PEND", b"")] + clone + [(b"PEND", b"")]
              + b + [(b"PEND", b"")] + _module_chunks(d0, "Output", True, []))
    p = rw.read_back(H, _stream(chunks))
    H.check("four_slots_in_file_order", len(p.patterns) == 4 and type(p.patterns[0]) is Pattern and p.patterns[1] is None
            and type(p.patterns[2]) is PatternClone and type(p.patterns[3]) is Pattern)
    if len(p.patterns) != 4 or p.patterns[1] is not None or type(p.patterns[2]) is not PatternClone:
        return
    for pfx, pat, lines, tracks in (("a.", p.patterns[0], 2, 1), ("b.", p.patterns[3], 1, 1)):
        H.check(f"{pfx}shape", pat.lines == lines and pat.tracks == tracks and len(pat.data) == lines and all(len(r) == tracks for r in pat.data))
        for cid, attr, kind, cond in F.PATTERN_CHUNKS:
            if attr is not None and pfx + attr in vals:
                got = getattr(pat, attr)
                H.check(f"{pfx}{cid}.decoded", H.eq(tuple(got) if kind == "rgb" else got, vals[pfx + attr]))
        for l in range(lines):
            for t in range(tracks):
                n = pat.data[l][t]
                H.check(f"{pfx}cell[{l}][{t}]", H.eq((n.note, n.vel, n.module, n.ctl, n.val), vals[pfx + "cells"][l][t]))
    H.check("a.PNME", p.patterns[0].name == ("foreign verse" if variant != "noname" else None))
    H.check("b.PNME.absent_leaves_none", p.patterns[3].name is None)
    cl = p.patterns[2]
    H.check("clone.PPAR", cl.source == 0)
    for cid, attr, kind, _ in F.CLONE_CHUNKS:
        if "cl." + attr in vals:
            H.check(f"clone.{cid}.decoded", H.eq(getattr(cl, attr), vals["cl." + attr]))
    H.cover("reached")


@contract("unknown_ids_have_no_handler", ["C04"], targets=["rv.readers.*:process_<id> attribute tables"], kind="ground")
def unknown_ids_have_no_handler(H, _):
    """Ground: the id used for 'unknown chunk' names no attribute of any reader class, and every
    handler the dispatcher can reach is a documented or extension chunk id."""
    from rv.readers.initial import InitialReader
    from rv.readers.module import ModuleReader
    from rv.readers.pattern import PatternCloneReader, PatternReader
    from rv.readers.sunsynth import SunSynthReader
    from rv.readers.sunvox import SunVoxReader

    for R in (InitialReader, SunVoxReader, SunSynthReader, ModuleReader, PatternReader, PatternCloneReader):
        H.check(f"{R.__name__}.no_handler_for_probe_id", not hasattr(R, "process_" + UNKNOWN_ID.decode()))


# ------------------------------------------------------------------------------- fixtures (bounded)


def _fixture_cases(tier):
    root = os.path.join(os.environ.get("RV_REPO", "/repo"), "tests", "files")
    files = sorted(glob.glob(os.path.join(root, "**", "*.sunvox"), recursive=True) + glob.glob(os.path.join(root, "**", "*.sunsynth"), recursive=True))
    return [(os.path.relpath(f, root), f) for f in files]


def _load(data):
    import io

    from rv.readers.reader import read_sunvox_file

    return read_sunvox_file(io.BytesIO(data))


def _norm(obj):
    snap = K.snapshot(obj, depth=12)
    return repr(snap)


@contract(
    "fixtures_with_structure_preserving_edits", ["C04"], targets=_T, cases=_fixture_cases, kind="bounded",
    bound="all shipped fixture files; unknown chunk inserted at every top-level chunk boundary (quick: every 7th), eight odd unknown ids (white-space variants of documented ids, non-text bytes) at three positions; CVAL list truncated at every length (quick: 3 lengths); native evaluation",
)
def fixtures_with_structure_preserving_edits(H, path):
    """Run-time contract evaluation on concrete files: inserting an unknown chunk at a top-level chunk
    boundary yields an observably identical object; truncating the CVAL list of a .sunsynth leaves
    the remaining controllers at their defaults and the others unchanged."""
    data = open(path, "rb").read()
    chunks = F.parse_stream(data)
    H.check("independent_parser_accepts_fixture", len(chunks) > 0)
    base = _norm(_load(data))
    step = 1 if getattr(H, "tier", "quick") == "thorough" else 7
    for pos in range(1, len(chunks), step):
        edited = _stream(chunks[:pos] + [(UNKNOWN_ID, b"\x01\x02\x03")] + chunks[pos:])
        try:
            same = _norm(_load(edited)) == base
        except Exception as e:  # noqa
            same = False
        H.check("unknown_chunk_changes_nothing", same, witness={"file": os.path.basename(path), "position": pos})
    # ids that are NOT in the format although they resemble documented ones or are not even text: a
    # documented id with different padding / white space, and arbitrary bytes.  Payloads are 4 bytes so
    # that a reader which mistook one of them for the documented chunk would visibly change a field.
    for odd in ODD_UNKNOWN_IDS:
        for pos in sorted({1, len(chunks) // 2, len(chunks) - 1}):
            edited = _stream(chunks[:pos] + [(odd, b"\xe7\x03\x00\x00")] + chunks[pos:])
            try:
                same = _norm(_load(edited)) == base
                err = None
            except Exception as e:  # noqa
                same, err = False, repr(e)
            H.check("odd_unknown_id_is_skipped", same, witness={"file": os.path.basename(path), "id": repr(odd), "position": pos, "error": err})
    # an id that IS documented, but for another level of the file, is unknown where it stands: a module-level
    # id among the project header chunks, a project-level id inside a module section - skipped there, and
    # the documented chunk of that name still works where it belongs
    if path.endswith(".sunvox"):
        ids = [bytes(c[0]) for c in chunks]
        first_mod = ids.index(b"SFFF") if b"SFFF" in ids else len(ids)
        inside = next((i for i in range(first_mod + 1, len(ids)) if ids[i] == b"SNAM"), None)
        probes = [(b"SXXX", 1), (b"SCOL", max(1, first_mod - 1)), (b"CVAL", 2)]
        if inside is not None:
            probes += [(b"GVOL", inside + 1), (b"PATN", inside + 1)]
        for cid, pos in probes:
            edited = _stream(chunks[:pos] + [(cid, b"\x2a\x00\x00\x00")] + chunks[pos:])
            try:
                same = _norm(_load(edited)) == base
                err = None
            except Exception as e:  # noqa
                same, err = False, repr(e)
            H.check("id_of_another_level_is_skipped", same, witness={"file": os.path.basename(path), "id": repr(cid), "position": pos, "error": err})
        # loading is not history dependent: the unedited file still decodes to the same object afterwards
        H.check("later_load_of_the_pristine_file_is_unaffected", _norm(_load(data)) == base, witness={"file": os.path.basename(path)})
    # [doc: "Waveform chunk"] CHFR is optional, default 44100: dropping every CHFR that says 44100 changes nothing
    cut = [c for c in chunks if not (bytes(c[0]) == b"CHFR" and bytes(c[1]) == b"\x44\xac\x00\x00")]
    if len(cut) != len(chunks):
        try:
            same = _norm(_load(_stream(cut))) == base
            err = None
        except Exception as e:  # noqa
            same, err = False, repr(e)
        H.check("absent_CHFR_leaves_documented_default_44100", same, witness={"file": os.path.basename(path), "error": err})
    if path.endswith(".sunsynth"):
        cv = [i for i, c in enumerate(chunks) if bytes(c[0]) == b"CVAL"]
        full = _load(data).module
        names = [n for n, c in type(full).controllers.items() if c.attached(full)]
        ks = range(len(cv) + 1) if getattr(H, "tier", "quick") == "thorough" else sorted({0, len(cv) // 2, max(0, len(cv) - 1)})
        fresh = type(full)()
        for k in ks:
            keep = set(cv[:k])
            edited = _stream([c for i, c in enumerate(chunks) if i not in set(cv) - keep and bytes(c[0]) != b"CMID"])
            try:
                m = _load(edited).module
                ok = True
                for j, n in enumerate(names[:len(cv)]):
                    t = type(full).controllers[n].value_type
                    if isinstance(t, DependentRange) or n.startswith("user_defined"):
                        continue
                    want = full.controller_values[n] if j < k else fresh.controller_values[n]
                    if m.controller_values[n] != want:
                        ok = False
            except Exception:  # noqa
                ok = False
            H.check("truncated_cvals_leave_defaults", ok, witness={"file": os.path.basename(path), "cvals_kept": k})


@contract(
    "string_chunks_decode", ["C04", "C01"], kind="bounded",
    targets=["rv.readers.module:ModuleReader.process_SNAM", "rv.readers.module:ModuleReader.process_SMIN",
             "rv.readers.module:ModuleReader.process_STYP", "rv.readers.sunvox:SunVoxReader.process_NAME",
             "rv.readers.pattern:PatternReader.process_PNME"],
    bound="payloads of length 0..34 built from ASCII and multi-byte UTF-8 text with the first NUL at every position or absent (unterminated, e.g. a name that fills the 32-byte SNAM field); native evaluation against the spec's cstring decoder",
)
def string_chunks_decode(H, _):
    """Every string chunk decodes to the text before its first NUL byte - or to the whole payload
    when there is no NUL at all."""
    import io

    from rv.modules.amplifier import Amplifier
    from rv.readers.module import ModuleReader
    from rv.readers.pattern import PatternReader
    from rv.readers.sunvox import SunVoxReader

    texts = ["", "A", "Amplifier for the left channel 2", "αβγδ ♫ mixed ☃ text", "x" * 34]
    payloads = []
    for t in texts:
        raw = t.encode("utf8")
        payloads.append(raw)  # unterminated
        payloads.append(raw + b"\0")
        payloads.append(raw + b"\0\0\0")
        payloads.append(raw + b"\0junk after terminator")
        payloads.append(raw[:32].decode("utf8", "ignore").encode("utf8").ljust(32, b"\0"))
    for payload in payloads:
        want = F.dec_cstring(payload)
        w = {"payload": repr(payload)}
        r = ModuleReader(io.BytesIO(b""), index=1)
        r._object = Amplifier()
        r.process_SNAM(payload)
        H.check("SNAM_decodes_to_text_before_first_NUL", r._object.name == want, witness=dict(w, got=r._object.name))
        r.process_SMIN(payload)
        H.check("SMIN_decodes_to_text_before_first_NUL", r._object.midi_out_name == want, witness=dict(w, got=r._object.midi_out_name))
        s = SunVoxReader(io.BytesIO(b""))
        s._object = Project()
        s.process_NAME(payload)
        H.check("NAME_decodes_to_text_before_first_NUL", s._object.name == want, witness=dict(w, got=s._object.name))
        pr = PatternReader(io.BytesIO(b""))
        pr._object = Pattern()
        pr.process_PNME(payload)
        H.check("PNME_decodes_to_text_before_first_NUL", pr._object.name == want, witness=dict(w, got=pr._object.name))
    for term in (b"\0", b"", b"\0\0"):
        r = ModuleReader(io.BytesIO(b""), index=1)
        r._object = Amplifier()
        r._object.flags = 0
        r.process_STYP(b"Amplifier" + term)
        H.check("STYP_selects_class_with_or_without_terminator", type(r._object).__name__ == "Amplifier", witness=repr(term))


@contract("foreign_canary", ["C04"], targets=["rv.readers.module:ModuleReader.process_SMIC"], canary=True)
def foreign_canary(H, _):
    """False claim: the MIDI-out channel word decodes as unsigned for every 32-bit payload."""
    import io

    from rv.modules.amplifier import Amplifier
    from rv.readers.module import ModuleReader

    r = ModuleReader(io.BytesIO(b""), index=1)
    r._object = Amplifier()
    w = H.int("word", *K.U32)
    H.call(r.process_SMIC, F.enc_u32(w))
    H.check("canary_SMIC_is_unsigned", r._object.midi_out_channel == w)


def _array_fixture_cases(tier):
    names = ["multictl.sunsynth", "waveshaper.sunsynth", "multisynth.sunsynth", "generator.sunsynth", "analog-generator.sunsynth", "spectravoice.sunsynth"]
    root = os.path.join(os.environ.get("RV_REPO", "/repo"), "tests", "files")
    return [(n, os.path.join(root, n)) for n in names if os.path.exists(os.path.join(root, n))]


@contract(
    "absent_array_chunks_leave_documented_default_every_time", ["C04", "C17"], kind="bounded", cases=_array_fixture_cases,
    targets=["rv.chunks.array:ArrayChunk.reset", "rv.chunks.array:ArrayChunk.__init__", "rv.chunks.waveform:WaveformChunk.__init__",
             "rv.readers.module:ModuleReader._load_last_chunk"],
    bound="the listed fixtures with every module-specific array / waveform chunk dropped (a structure-preserving edit: these chunks are optional); "
          "load, edit every element of the loaded arrays in place, load the same bytes again; natively",
)
def absent_array_chunks_leave_documented_default_every_time(H, path):
    """Dropping the optional module-specific chunks leaves each array at the default the specification
    documents - on the first load and again on a second load made after the first object's arrays were
    edited in place (the default must not be a list shared with earlier objects)."""
    from spec import yamlspec

    data = open(path, "rb").read()
    chunks = F.parse_stream(data)
    keep = []
    skip = 0
    for cid, payload in chunks:
        b = bytes(cid)
        if b in (b"CHNK",):
            continue
        if b == b"CHNM":
            skip = 1
            continue
        if skip and b in (b"CHDT", b"CHFF", b"CHFR"):
            continue
        skip = 0
        keep.append((cid, payload))
    stripped = _stream(keep)
    a = _load(stripped).module
    spec = yamlspec.spec_by_mtype()[type(a).mtype]
    alias = {"note_velocity_curve": "nv_curve", "velocity_velocity_curve": "vv_curve", "note_pitch_curve": "np_curve"}

    def defaults_ok(m, tag):
        for ch in spec.chunks:
            want = ch.get("default")
            arr = getattr(m, alias.get(ch["name"], ch["name"]), None)
            if isinstance(want, list) and arr is not None and hasattr(arr, "values"):
                # enum-typed arrays are specified by member name
                got = [getattr(v, "name", v) if isinstance(w, str) else getattr(v, "value", v) for v, w in zip(arr.values, want)]
                if len(arr.values) != len(want):
                    got = None
                H.check("absent_chunk_leaves_documented_default", got == list(want),
                        witness={"file": os.path.basename(path), "chunk": ch["name"], "when": tag, "first_difference": next((i for i, (x, y) in enumerate(zip(got or [], want)) if x != y), None)})
        if hasattr(m, "drawn_waveform"):
            H.check("absent_waveform_leaves_documented_default", list(m.drawn_waveform.samples) == F.DRAWN_WAVEFORM_DEFAULT,
                    witness={"file": os.path.basename(path), "when": tag})

    defaults_ok(a, "first load")
    for k, v in vars(a).items():
        vals = getattr(v, "values", None)
        if isinstance(vals, list) and vals and all(isinstance(x, int) and not isinstance(x, bool) for x in vals):
            for i in range(len(vals)):
                vals[i] = (vals[i] + 1 + i) % 200
    if hasattr(a, "drawn_waveform"):
        for i in range(len(a.drawn_waveform.samples)):
            a.drawn_waveform.samples[i] = (i * 3) % 100
    b = _load(stripped).module
    defaults_ok(b, "second load, after the first object was edited in place")
