"""C08 - the connection graph and slot order persist across save/load."""
from __future__ import annotations

import io

from rv.modules.amplifier import Amplifier
from rv.project import Project
from rv.readers.module import ModuleReader
from rv.readers.reader import read_sunvox_file
from rvproof.contract import contract
from spec import format as F

from . import links as L
from . import rw

TECHNIQUE = "contract-based deductive verification of the SLNK/SLnK codecs (z3); end-of-file reconstruction as labelled small-scope bounded stand-in"
LEVEL = "other"
LEVEL_TEXT = (
    "Mixed. Deductive: the SLNK/SLnK codecs (writer emission rule, reader strip-trailing loops) for link tables of every length up to "
    "the stated bound with ARBITRARY int32 contents. Bounded: the end-of-file reconstruction (a two-pass algorithm over all modules) is "
    "checked on every link state reachable by the C07 histories at small scope, with the slot chunk present, absent, or present for "
    "only some modules - run-time contract evaluation on the real writer/reader, listed under bounded_parts, not counted as proved."
)
EXPLANATION = LEVEL_TEXT
ASSUMPTIONS = [
    "link table lengths 0..6 in the codec obligations (contents symbolic); reconstruction: output + 3 modules, histories up to depth 3 (quick) / 4 (thorough)",
    "'slot chunk present for only some modules' is produced by deleting SLnK chunks from the written stream with the independent chunk parser",
]


def _len_cases(tier):
    return [(f"n={n}", n) for n in (range(0, 5) if tier == "quick" else range(0, 7))]


@contract(
    "slnk_codec", ["C08", "C05", "C01", "C07"], cases=_len_cases,
    targets=["rv.project:Project.chunks", "rv.readers.module:ModuleReader.process_SLNK", "rv.readers.module:ModuleReader.process_SLnK"],
)
def slnk_codec(H, n):
    """Module with in_links / in_link_slots of length n and arbitrary int32 contents.
    ensures: SLNK is always written and carries in_links as n little-endian int32; SLnK is written
    iff some slot is not in {0,-1} and then carries in_link_slots; the reader handlers return exactly
    the lists without their trailing -1 entries (and a second write/read is the identity on those)."""
    p = Project()
    m = Amplifier()
    p.attach_module(m)
    m.in_links = [H.int(f"l{i}", *rw.I32) for i in range(n)]
    m.in_link_slots = [H.int(f"s{i}", *rw.I32) for i in range(n)]
    chunks = rw.chunk_list(H, p)
    idx = [i for i, c in enumerate(chunks) if c[0] == b"SFFF"][1]
    sect = chunks[idx:]
    slnk = [c[1] for c in sect if c[0] == b"SLNK"]
    slk2 = [c[1] for c in sect if c[0] == b"SLnK"]
    H.check("SLNK_written_once", len(slnk) == 1)
    H.check("SLNK_is_int32_list", H.eq(slnk[0], rw.join([F.enc_i32(x) for x in m.in_links])))
    interesting = H.or_(*[H.and_(s != 0, s != -1) for s in m.in_link_slots]) if n else False
    H.check("SLnK_written_iff_some_slot_not_0_or_minus1", H.eq(len(slk2) == 1, interesting))
    if slk2:
        H.check("SLnK_is_int32_list", H.eq(slk2[0], rw.join([F.enc_i32(x) for x in m.in_link_slots])))
    r = ModuleReader(io.BytesIO(b""), index=1)
    r._object = Amplifier()
    H.call(r.process_SLNK, slnk[0])
    got = r._object.in_links
    # expected: the list without trailing -1 (stated with the contract's own strip)
    k = n
    stripped = []
    # symbolic strip: compare against every possible cut position
    conds = []
    for cut in range(n + 1):
        tail_all_minus1 = H.and_(*[m.in_links[i] == -1 for i in range(cut, n)]) if cut < n else True
        head_ok = (m.in_links[cut - 1] != -1) if cut > 0 else True
        conds.append((cut, H.and_(tail_all_minus1, head_ok)))
    H.check("SLNK_decodes_to_list_without_trailing_minus1",
            H.or_(*[H.and_(c, len(got) == cut, H.eq(list(got), m.in_links[:cut])) for cut, c in conds]))
    if slk2:
        H.call(r.process_SLnK, slk2[0])
        gs = r._object.in_link_slots
        conds2 = []
        for cut in range(n + 1):
            tail = H.and_(*[m.in_link_slots[i] == -1 for i in range(cut, n)]) if cut < n else True
            head = (m.in_link_slots[cut - 1] != -1) if cut > 0 else True
            conds2.append((cut, H.and_(tail, head)))
        H.check("SLnK_decodes_to_list_without_trailing_minus1",
                H.or_(*[H.and_(c, len(gs) == cut, H.eq(list(gs), m.in_link_slots[:cut])) for cut, c in conds2]))
    H.cover("reached")


def _reload(p, drop_slnk_for=None):
    data = p.read()
    if drop_slnk_for is not None:
        chunks = F.parse_stream(data)
        out = []
        mod = -1
        for cid, payload in chunks:
            if bytes(cid) == b"SFFF":
                mod += 1
            if bytes(cid) == b"SLnK" and (drop_slnk_for == "all" or mod in drop_slnk_for):
                continue
            out.append((cid, payload))
        data = b"".join(F.frame(c, pl) for c, pl in out)
    return read_sunvox_file(io.BytesIO(data))


def _check_persist(H, p, model, hist, res, err):
    if err is not None:
        return
    where = " ; ".join(L.describe_op(o) for o in hist)
    # saving must not touch the live tables, and a project that was saved after every operation must
    # end in the same state as one that was never saved
    live = L.tables(p)
    p.read()
    H.check("saving_leaves_live_tables_untouched", L.tables(p) == live, witness={"history": where, "before": live, "after": L.tables(p)})
    p2 = L.new_project(len(p.modules) - 1)
    for op in hist:
        L.apply_op(p2, op)
        p2.read()
    H.check("intermediate_saves_do_not_change_the_outcome", L.tables(p2) == live, witness={"history": where, "without_saves": live, "with_saves": L.tables(p2)})
    try:
        q = _reload(p)
    except Exception as e:  # noqa
        H.check("saved_project_loads", False, witness={"history": where, "error": repr(e)})
        return
    H.check("saved_project_loads", True)
    H.check("graph_preserved", L.graph_of(q) == L.graph_of(p), witness={"history": where, "before": sorted(L.graph_of(p)), "after": sorted(L.graph_of(q))})
    bad = L.links_ok(q)
    H.check("loaded_tables_mutually_consistent", bad is None, witness={"history": where, "problem": bad})
    same = True
    for a, b in zip(L.tables(p), L.tables(q)):
        if a is None or b is None:
            same = same and a is b
            continue
        same = same and all(L.strip_trailing(x) == L.strip_trailing(y) for x, y in zip(a, b))
    H.check("slot_order_preserved_up_to_trailing_freed_slots", same and len(p.modules) == len(q.modules),
            witness={"history": where, "before": L.tables(p), "after": L.tables(q)})
    # files without explicit slot information (legacy files).  Files that carry the slot chunk for only
    # some modules are exactly what the writer's elision rule produces (all-zero tables are elided), so
    # that case is the plain save above; deleting a NON-zero slot chunk would delete information and is
    # not a structure-preserving edit (an earlier version of this check did that: false alarm, removed).
    for drop in ("all",):
        try:
            q2 = _reload(p, drop)
            bad2 = L.links_ok(q2)
            H.check("consistent_without_slot_chunk", bad2 is None, witness={"history": where, "dropped": str(drop), "problem": bad2})
            H.check("graph_preserved_without_slot_chunk", L.graph_of(q2) == L.graph_of(p),
                    witness={"history": where, "dropped": str(drop), "before": sorted(L.graph_of(p)), "after": sorted(L.graph_of(q2))})
        except Exception as e:  # noqa
            H.check("loads_without_slot_chunk", False, witness={"history": where, "dropped": str(drop), "error": repr(e)})


@contract(
    "link_states_persist", ["C08", "C07"], kind="bounded",
    targets=["rv.project:Project.chunks", "rv.readers.module:ModuleReader.process_SLNK", "rv.readers.module:ModuleReader.process_SLnK",
             "rv.readers.sunvox:SunVoxReader.process_end_of_file"],
    bound="every link state reached by single-pair connect/disconnect histories up to depth 3 (quick) / 4 (thorough) on output + 3 modules (fan-in, fan-out, cycles, links to the output, freed slots in the middle); slot chunk kept / dropped for all / dropped for some modules; native evaluation",
)
def link_states_persist(H, _):
    """save + load preserves the graph, each table up to trailing freed slots, and LinksOK; without
    explicit slot data the reconstruction still yields LinksOK and the same graph."""
    depth = 3 if getattr(H, "tier", "quick") == "quick" else 4
    ops = L.single_ops(4, forms=("method",))
    stats = L.explore_histories(3, depth, ops, lambda *a: _check_persist(H, *a))
    H.cover(f"states={stats[0]} distinct={stats[1]}")
