"""C08 - the connection graph and slot order persist across save/load."""
from __future__ import annotations

import io

from rv.modules.amplifier import Amplifier
from rv.project import Project
from rv.readers.module import ModuleReader
from rv.readers.reader import read_sunvox_file
from rvproof.contract import contract
from spec import format as F

from . import links as L
from . import rw

TECHNIQUE = "contract-based deductive verification of the SLNK/SLnK codecs and of SunVoxReader.process_end_of_file (symbolic table contents, enumerated table shapes; z3); save/load of reachable link states as labelled small-scope bounded stand-in"
LEVEL = "other"
LEVEL_TEXT = (
    "Mixed. Deductive: the SLNK/SLnK codecs (writer emission rule, reader strip-trailing loops) for link tables of every length up to "
    "the stated bound with ARBITRARY int32 contents; the end-of-file reconstruction (SunVoxReader.process_end_of_file, a two-pass algorithm "
    "over all modules) against the contract 'the out tables are exactly the mirror of the in tables, the rebuilt slots are the saved slots' "
    "for EVERY content of the in tables that is the in side of a LinksOK state (source and slot numbers symbolic), per enumerated table "
    "shape (up to 4 module positions, 4 entries, one empty position), with the slot chunks as the writer elides them and with none at all; "
    "and the composition through a real file ('link_tables_through_file': real writer -> real reader on a project whose in tables have symbolic "
    "LinksOK contents, freed entries anywhere; in tables come back up to trailing freed entries, out tables are the mirror). "
    "Bounded: the composition through real files on every link state reachable by the C07 histories at small scope - run-time contract "
    "evaluation on the real writer/reader (this also covers what the symbolic cases fix: that saving leaves the live tables untouched and that "
    "intermediate saves do not change the outcome of a history), listed under bounded_parts, not counted as proved."
)
EXPLANATION = LEVEL_TEXT
ASSUMPTIONS = [
    "link table lengths 0..6 in the codec obligations (contents symbolic); file-level reconstruction: output + 3 modules, histories up to depth 3 (quick) / 4 (thorough)",
    "end_of_file_reconstruction: table SHAPES are enumerated (quick: 5 shapes up to 3 positions / 2 entries per table; thorough: 16 shapes up to 4 positions / 3 entries), slot numbers range over 0..#entries (one more than needed, so freed slots in the middle of out tables occur); the 'no_slot_chunks' case requires every live slot to be 0 (a file without slot chunks cannot describe anything else)",
    "'slot chunk present for only some modules' is produced by deleting SLnK chunks from the written stream with the independent chunk parser",
]


def _len_cases(tier):
    return [(f"n={n}", n) for n in (range(0, 5) if tier == "quick" else range(0, 7))]


@contract(
    "slnk_codec", ["C08", "C05", "C01", "C07"], cases=_len_cases,
    targets=["rv.project:Project.chunks", "rv.readers.module:ModuleReader.process_SLNK", "rv.readers.module:ModuleReader.process_SLnK"],
)
def slnk_codec(H, n):
    """Module with in_links / in_link_slots of length n and arbitrary int32 contents.
    ensures: SLNK is always written and carries in_links as n little-endian int32; SLnK is written
    iff some slot is not in {0,-1} and then carries in_link_slots; the reader handlers return exactly
    the lists without their trailing -1 entries (and a second write/read is the identity on those)."""
    p = Project()
    m = Amplifier()
    p.attach_module(m)
    m.in_links = [H.int(f"l{i}", *rw.I32) for i in range(n)]
    m.in_link_slots = [H.int(f"s{i}", *rw.I32) for i in range(n)]
    chunks = rw.chunk_list(H, p)
    idx = [i for i, c in enumerate(chunks) if c[0] == b"SFFF"][1]
    sect = chunks[idx:]
    slnk = [c[1] for c in sect if c[0] == b"SLNK"]
    slk2 = [c[1] for c in sect if c[0] == b"SLnK"]
    H.check("SLNK_written_once", len(slnk) == 1)
    H.check("SLNK_is_int32_list", H.eq(slnk[0], rw.join([F.enc_i32(x) for x in m.in_links])))
    interesting = H.or_(*[H.and_(s != 0, s != -1) for s in m.in_link_slots]) if n else False
    H.check("SLnK_written_iff_some_slot_not_0_or_minus1", H.eq(len(slk2) == 1, interesting))
    if slk2:
        H.check("SLnK_is_int32_list", H.eq(slk2[0], rw.join([F.enc_i32(x) for x in m.in_link_slots])))
    r = ModuleReader(io.BytesIO(b""), index=1)
    r._object = Amplifier()
    H.call(r.process_SLNK, slnk[0])
    got = r._object.in_links
    # expected: the list without trailing -1 (stated with the contract's own strip)
    k = n
    stripped = []
    # symbolic strip: compare against every possible cut position
    conds = []
    for cut in range(n + 1):
        tail_all_minus1 = H.and_(*[m.in_links[i] == -1 for i in range(cut, n)]) if cut < n else True
        head_ok = (m.in_links[cut - 1] != -1) if cut > 0 else True
        conds.append((cut, H.and_(tail_all_minus1, head_ok)))
    H.check("SLNK_decodes_to_list_without_trailing_minus1",
            H.or_(*[H.and_(c, len(got) == cut, H.eq(list(got), m.in_links[:cut])) for cut, c in conds]))
    if slk2:
        H.call(r.process_SLnK, slk2[0])
        gs = r._object.in_link_slots
        conds2 = []
        for cut in range(n + 1):
            tail = H.and_(*[m.in_link_slots[i] == -1 for i in range(cut, n)]) if cut < n else True
            head = (m.in_link_slots[cut - 1] != -1) if cut > 0 else True
            conds2.append((cut, H.and_(tail, head)))
        H.check("SLnK_decodes_to_list_without_trailing_minus1",
                H.or_(*[H.and_(c, len(gs) == cut, H.eq(list(gs), m.in_link_slots[:cut])) for cut, c in conds2]))
    H.cover("reached")


def _reload(p, drop_slnk_for=None):
    data = p.read()
    if drop_slnk_for is not None:
        chunks = F.parse_stream(data)
        out = []
        mod = -1
        for cid, payload in chunks:
            if bytes(cid) == b"SFFF":
                mod += 1
            if bytes(cid) == b"SLnK" and (drop_slnk_for == "all" or mod in drop_slnk_for):
                continue
            out.append((cid, payload))
        data = b"".join(F.frame(c, pl) for c, pl in out)
    return read_sunvox_file(io.BytesIO(data))


def _check_persist(H, p, model, hist, res, err):
    if err is not None:
        return
    where = " ; ".join(L.describe_op(o) for o in hist)
    # saving must not touch the live tables, and a project that was saved after every operation must
    # end in the same state as one that was never saved
    live = L.tables(p)
    p.read()
    H.check("saving_leaves_live_tables_untouched", L.tables(p) == live, witness={"history": where, "before": live, "after": L.tables(p)})
    p2 = L.new_project(len(p.modules) - 1)
    for op in hist:
        L.apply_op(p2, op)
        p2.read()
    H.check("intermediate_saves_do_not_change_the_outcome", L.tables(p2) == live, witness={"history": where, "without_saves": live, "with_saves": L.tables(p2)})
    try:
        q = _reload(p)
    except Exception as e:  # noqa
        H.check("saved_project_loads", False, witness={"history": where, "error": repr(e)})
        return
    H.check("saved_project_loads", True)
    H.check("graph_preserved", L.graph_of(q) == L.graph_of(p), witness={"history": where, "before": sorted(L.graph_of(p)), "after": sorted(L.graph_of(q))})
    bad = L.links_ok(q)
    H.check("loaded_tables_mutually_consistent", bad is None, witness={"history": where, "problem": bad})
    same = True
    for a, b in zip(L.tables(p), L.tables(q)):
        if a is None or b is None:
            same = same and a is b
            continue
        same = same and all(L.strip_trailing(x) == L.strip_trailing(y) for x, y in zip(a, b))
    H.check("slot_order_preserved_up_to_trailing_freed_slots", same and len(p.modules) == len(q.modules),
            witness={"history": where, "before": L.tables(p), "after": L.tables(q)})
    # files without explicit slot information (legacy files).  Files that carry the slot chunk for only
    # some modules are exactly what the writer's elision rule produces (all-zero tables are elided), so
    # that case is the plain save above; deleting a NON-zero slot chunk would delete information and is
    # not a structure-preserving edit (an earlier version of this check did that: false alarm, removed).
    for drop in ("all",):
        try:
            q2 = _reload(p, drop)
            bad2 = L.links_ok(q2)
            H.check("consistent_without_slot_chunk", bad2 is None, witness={"history": where, "dropped": str(drop), "problem": bad2})
            H.check("graph_preserved_without_slot_chunk", L.graph_of(q2) == L.graph_of(p),
                    witness={"history": where, "dropped": str(drop), "before": sorted(L.graph_of(p)), "after": sorted(L.graph_of(q2))})
        except Exception as e:  # noqa
            H.check("loads_without_slot_chunk", False, witness={"history": where, "dropped": str(drop), "error": repr(e)})


@contract(
    "link_states_persist", ["C08", "C07"], kind="bounded",
    targets=["rv.project:Project.chunks", "rv.readers.module:ModuleReader.process_SLNK", "rv.readers.module:ModuleReader.process_SLnK",
             "rv.readers.sunvox:SunVoxReader.process_end_of_file"],
    bound="every link state reached by single-pair connect/disconnect histories up to depth 3 (quick) / 4 (thorough) on output + 3 modules (fan-in, fan-out, cycles, links to the output, freed slots in the middle); slot chunk kept / dropped for all / dropped for some modules; native evaluation",
)
def link_states_persist(H, _):
    """save + load preserves the graph, each table up to trailing freed slots, and LinksOK; without
    explicit slot data the reconstruction still yields LinksOK and the same graph."""
    depth = 3 if getattr(H, "tier", "quick") == "quick" else 4
    ops = L.single_ops(4, forms=("method",))
    stats = L.explore_histories(3, depth, ops, lambda *a: _check_persist(H, *a))
    H.cover(f"states={stats[0]} distinct={stats[1]}")


# ---------------------------------------------------------------------------------------------
# Deductive contract for the end-of-file pass itself (replaces, for the stated table shapes, the
# run-time enumeration above): SunVoxReader.process_end_of_file is run on a reader whose project is
# in the state the section readers leave it in - every module has its stripped in_links /
# in_link_slots (or NO in_link_slots where the writer's elision rule drops SLnK) and empty out
# tables.  The CONTENTS of the in tables are symbolic: every source number and every slot number.


def _check_out_tables_mirror(H, shape, mods, src, slot, ents):
    """out tables of every module == the mirror of the (symbolic) in entries, no trailing freed slot."""
    for s, n in enumerate(shape):
        if n is None:
            continue
        m = mods[s]
        L_ = len(m.out_links)
        H.check(f"out_tables_same_length[{s}]", L_ == len(m.out_link_slots))
        conds = []
        for j in range(min(L_, len(m.out_link_slots))):
            live = [H.and_(src[e] == s, slot[e] == j) for e in ents]
            exp_ok = H.and_(*[H.implies(c, H.and_(H.eq(m.out_links[j], e[0]), H.eq(m.out_link_slots[j], e[1]))) for c, e in zip(live, ents)])
            none_ok = H.implies(H.not_(H.or_(*live)) if live else True, H.and_(H.eq(m.out_links[j], -1), H.eq(m.out_link_slots[j], -1)))
            conds.append(H.and_(exp_ok, none_ok))
        H.check(f"out_entries_mirror_the_in_entries[{s}]", H.and_(*conds) if conds else True)
        H.check(f"every_in_entry_naming_this_source_has_its_slot[{s}]",
                H.and_(*[H.implies(src[e] == s, slot[e] < L_) for e in ents]) if ents else True)
        H.check(f"no_trailing_freed_out_slot[{s}]", True if L_ == 0 else H.not_(H.eq(m.out_links[L_ - 1], -1)))


def _eof_shapes(tier):
    # (label, (lengths of the in tables of modules 0..T-1 ; None = empty position))
    quick = [(1, 1), (0, 2), (2, 0), (1, 0, 1), (2, None, 1)]
    more = [(1, 1, 1), (0, 2, 1), (2, 1, 0), (0, 1, 2), (1, 2, 1), (2, 2, 0), (0, 3, 0), (1, 1, 1, 1), (0, 2, None, 2), (1, 0, 2, 1), (3, 1, 0)]
    shapes = quick if tier == "quick" else quick + more
    out = []
    for sh in shapes:
        for elide in ("as_written", "no_slot_chunks"):
            out.append((",".join("x" if n is None else str(n) for n in sh) + ":" + elide, (sh, elide)))
    return out


@contract(
    "end_of_file_reconstruction", ["C08", "C07"], cases=_eof_shapes,
    targets=["rv.readers.sunvox:SunVoxReader.process_end_of_file"], timeout_ms=20000, max_paths=60000,
)
def end_of_file_reconstruction(H, case):
    """requires: the in tables are the in side of SOME LinksOK state (freed entries are -1 in both lists, every live
    entry names an existing module, no source twice in one table, two live entries naming the same source use
    different slots), stripped of trailing freed entries as process_SLNK / process_SLnK leave them; a module's
    in_link_slots is empty where the writer elides SLnK (every slot 0 or -1) - case 'as_written' - or for every
    module whose slots CAN be rebuilt by iteration order (legacy file without slot chunks: case 'no_slot_chunks',
    which additionally requires every live slot to be 0, the only tables such a file can describe unambiguously).
    ensures: process_end_of_file ends with ReaderFinished; in_links are untouched; in_link_slots equal the
    original slots; for every module s the out tables have equal lengths, entry j is (d, k) exactly when in entry k
    of module d names (s, j) and (-1, -1) otherwise, and the last entry is live (i.e. the original out tables up to
    trailing freed slots) - which is LinksOK for the loaded project."""
    from rv.readers.reader import ReaderFinished
    from rv.readers.sunvox import SunVoxReader

    shape, elide = case
    T = len(shape)
    p = Project()
    p.modules.clear()
    mods = []
    for i, n in enumerate(shape):
        if n is None:
            p.modules.append(None)
            mods.append(None)
            continue
        m = Amplifier()
        m.index = i
        m.parent = p
        p.modules.append(m)
        mods.append(m)
    E = sum(n for n in shape if n)
    K = E + 1  # slots range over one more than the number of entries: freed slots in the middle of out tables
    src = {}
    slot = {}
    for d, n in enumerate(shape):
        for k in range(n or 0):
            src[d, k] = H.int(f"src[{d}][{k}]", -1, T - 1)
            slot[d, k] = H.int(f"slot[{d}][{k}]", -1, K - 1)
    ents = sorted(src)
    for e in ents:
        H.assume(H.eq(src[e] == -1, slot[e] == -1))
        for i, n in enumerate(shape):
            if n is None:
                H.assume(src[e] != i)
    for d, n in enumerate(shape):
        if n:
            H.assume(src[d, n - 1] != -1)  # stripped
    for a in ents:
        for b in ents:
            if a < b:
                if a[0] == b[0]:
                    H.assume(H.or_(src[a] == -1, src[a] != src[b]))
                H.assume(H.or_(src[a] == -1, src[a] != src[b], slot[a] != slot[b]))
    if elide == "no_slot_chunks":
        for e in ents:
            H.assume(H.or_(slot[e] == -1, slot[e] == 0))
    r = SunVoxReader(io.BytesIO(b""))
    r._object = p
    p.loaded_sunvox_version = (2, 1, 2, 0)
    elided = {}
    for d, n in enumerate(shape):
        if n is None:
            continue
        m = mods[d]
        m.in_links = [src[d, k] for k in range(n)]
        trivial = H.and_(*[H.or_(slot[d, k] == 0, slot[d, k] == -1) for k in range(n)]) if n else True
        if elide == "no_slot_chunks" or (n and trivial) or not n:
            m.in_link_slots = []
            elided[d] = True
        else:
            m.in_link_slots = [slot[d, k] for k in range(n)]
            elided[d] = False
        m.out_links = []
        m.out_link_slots = []
    finished = False
    try:
        H.call(r.process_end_of_file)
    except ReaderFinished:
        finished = True
    H.check("ends_with_ReaderFinished", finished)
    H.check("module_list_untouched", len(p.modules) == T and all(a is b for a, b in zip(p.modules, mods)))
    for d, n in enumerate(shape):
        if n is None:
            continue
        m = mods[d]
        H.check(f"in_links_untouched[{d}]", len(m.in_links) == n and H.and_(*[H.eq(m.in_links[k], src[d, k]) for k in range(n)]))
        H.check(f"in_link_slots_are_the_saved_slots[{d}]",
                len(m.in_link_slots) == n and H.and_(*[H.eq(m.in_link_slots[k], slot[d, k]) for k in range(n)]))
    _check_out_tables_mirror(H, shape, mods, src, slot, ents)
    H.cover("reached")


def _file_shapes(tier):
    quick = [(1, 1), (0, 2), (2, 0), (1, 0, 1)]
    more = [(1, 1, 1), (0, 2, 1), (2, 1, 0), (0, 1, 2), (0, 3, 0), (2, 2, 0)]
    return [(",".join(map(str, sh)), sh) for sh in (quick if tier == "quick" else quick + more)]


@contract(
    "link_tables_through_file", ["C08", "C01"], cases=_file_shapes, timeout_ms=20000, max_paths=60000,
    targets=["rv.project:Project.chunks", "rv.readers.module:ModuleReader.process_SLNK", "rv.readers.module:ModuleReader.process_SLnK",
             "rv.readers.sunvox:SunVoxReader.process_end_of_file", "rv.readers.reader:read_sunvox_file"],
)
def link_tables_through_file(H, shape):
    """The composition, through a real file: a project whose in tables hold ARBITRARY contents that are the in
    side of a LinksOK state (source and slot numbers symbolic, freed entries anywhere - also at the end) is
    written by the real writer and read back by the real reader.
    ensures: every module's in_links / in_link_slots come back equal up to trailing freed entries, and the out
    tables are exactly the mirror of the in entries (same clauses as end_of_file_reconstruction): the graph,
    the slot positions of incoming and outgoing links and LinksOK are all preserved, whether the writer kept or
    elided the slot chunk of a module (the elision decision is taken by the real writer on the symbolic slots)."""
    T = len(shape)
    p = L.new_project(T - 1)
    mods = list(p.modules)
    E = sum(shape)
    K = E + 1
    src, slot = {}, {}
    for d, n in enumerate(shape):
        for k in range(n):
            src[d, k] = H.int(f"src[{d}][{k}]", -1, T - 1)
            slot[d, k] = H.int(f"slot[{d}][{k}]", -1, K - 1)
    ents = sorted(src)
    for e in ents:
        H.assume(H.eq(src[e] == -1, slot[e] == -1))
    for a in ents:
        for b in ents:
            if a < b:
                if a[0] == b[0]:
                    H.assume(H.or_(src[a] == -1, src[a] != src[b]))
                H.assume(H.or_(src[a] == -1, src[a] != src[b], slot[a] != slot[b]))
    for d, n in enumerate(shape):
        mods[d].in_links = [src[d, k] for k in range(n)]
        mods[d].in_link_slots = [slot[d, k] for k in range(n)]
    q = rw.read_back(H, rw.write_container(H, p))
    H.check("same_number_of_modules", len(q.modules) == T)
    if len(q.modules) != T:
        return
    qm = list(q.modules)
    for d, n in enumerate(shape):
        for attr, tab in (("in_links", src), ("in_link_slots", slot)):
            got = list(getattr(qm[d], attr))
            g = len(got)
            ok = g <= n
            if ok:
                ok = H.and_(*([H.eq(got[k], tab[d, k]) for k in range(g)] + [tab[d, k] == -1 for k in range(g, n)]
                              + ([H.not_(H.eq(got[g - 1], -1))] if g else [])))
            H.check(f"{attr}_equal_up_to_trailing_freed_entries[{d}]", ok)
    _check_out_tables_mirror(H, shape, qm, src, slot, ents)
    H.cover("reached")
