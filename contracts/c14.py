"""C14 - ownership and indexing of modules and patterns stay coherent."""
from __future__ import annotations

import io
import itertools

import rv.api  # noqa
from rv.errors import ModuleOwnershipError, PatternOwnershipError
from rv.modules.amplifier import Amplifier
from rv.modules.output import Output
from rv.note import Note
from rv.pattern import Pattern, PatternClone
from rv.project import Project
from rv.readers.reader import read_sunvox_file
from rvproof.contract import contract

TECHNIQUE = "contract-based deductive verification of attach_module on a reference list of arbitrary length and of Note.mod for all 16-bit numbers (z3); attach histories as labelled bounded stand-in"
LEVEL = "other"
LEVEL_TEXT = (
    "Mixed. Deductive: Note.mod / Note.module_index resolution for EVERY 16-bit module number against module lists with every pattern "
    "of empty positions up to the stated length, and the mod setter. Bounded: the index/parent invariant over histories of "
    "attach / new_module / += / attach_pattern / save+load is an exhaustive small-scope enumeration on the real code with the "
    "invariant evaluated as a run-time contract after every operation (bounded_parts, not counted as proved)."
)
EXPLANATION = LEVEL_TEXT
ASSUMPTIONS = [
    "histories: all sequences up to length 4 (quick) / 5 (thorough) over the operation alphabet listed in the contract; module lists up to 6 slots",
    "after save/load trailing empty module positions are gone (the format cannot represent them; excluded in the property's quantifier)",
]


def index_ok(p):
    if not p.modules or type(p.modules[0]) is not Output or p.output is not p.modules[0]:
        return "position 0 does not hold the output module"
    for i, m in enumerate(p.modules):
        if m is None:
            continue
        if m.index != i:
            return f"module at position {i} has index {m.index}"
        if m.parent is not p:
            return f"module at position {i} has a different parent"
    ids = [id(m) for m in p.modules if m is not None]
    if len(ids) != len(set(ids)):
        return "a module occupies two positions"
    for i, pat in enumerate(p.patterns):
        if pat is not None and pat.project is not p:
            return f"pattern {i} is owned by another project"
    return None


OPS = ["attach_new", "attach_none", "new_module", "iadd_module", "iadd_list", "attach_again", "attach_foreign",
       "attach_pattern", "attach_clone", "attach_pattern_none", "attach_owned_pattern", "iadd_pattern", "save_load"]


def _layout(p):
    return [None if m is None else id(m) for m in p.modules]


def _apply(H, p, op, hist):
    """Apply one operation with its own post-conditions.  Returns the (possibly reloaded) project."""
    where = " ; ".join(hist)
    before = _layout(p)
    before_pat = [None if x is None else id(x) for x in p.patterns]
    w = {"history": where}
    if op in ("attach_new", "new_module", "iadd_module", "iadd_list"):
        holes = [i for i, m in enumerate(p.modules) if m is None]
        want = holes[0] if holes else len(p.modules)
        if op == "attach_new":
            m = Amplifier()
            r = p.attach_module(m)
            H.check("attach_returns_module", r is m, witness=w)
        elif op == "new_module":
            m = p.new_module(Amplifier, volume=7)
            H.check("new_module_kwargs_applied", m.volume == 7, witness=w)
        elif op == "iadd_module":
            m = Amplifier()
            q = p
            q += m
            H.check("iadd_returns_project", q is p, witness=w)
        else:
            m = Amplifier()
            m2 = Amplifier()
            q = p
            q += [m, m2]
            holes2 = [i for i in holes[1:]]
            want2 = holes2[0] if holes2 else max(len(before), want + 1)
            H.check("second_module_takes_next_lowest_empty_position", m2.index == want2 and p.modules[want2] is m2,
                    witness=dict(w, got=m2.index, want=want2))
            before = list(before)
            while len(before) <= want2:
                before.append(None)
            before[want2] = None
        H.check("takes_lowest_empty_position_else_end", m.index == want and p.modules[want] is m,
                witness=dict(w, got=m.index, want=want))
        after = _layout(p)
        moved = [i for i, x in enumerate(before) if x is not None and (i >= len(after) or after[i] != x)]
        H.check("no_other_module_moved", not moved, witness=dict(w, moved=moved))
    elif op == "attach_none":
        p.attach_module(None)
        H.check("empty_slot_appended", _layout(p) == before + [None], witness=w)
    elif op == "attach_again":
        cands = [m for m in p.modules if m is not None]
        m = cands[-1]
        r = p.attach_module(m)
        H.check("attaching_twice_is_a_no_op", _layout(p) == before and r is m, witness=w)
    elif op == "attach_foreign":
        other = Project()
        m = other.new_module(Amplifier)
        snap_other = _layout(other)
        try:
            p.attach_module(m)
            err = None
        except Exception as e:  # noqa
            err = e
        H.check("foreign_module_refused_with_ownership_error", isinstance(err, ModuleOwnershipError), witness=dict(w, error=repr(err)))
        H.check("refusal_changes_nothing", _layout(p) == before and _layout(other) == snap_other and m.parent is other and m.index == 1, witness=w)
    elif op in ("attach_pattern", "attach_clone", "attach_pattern_none", "iadd_pattern"):
        x = {"attach_pattern": Pattern(lines=1, tracks=1), "attach_clone": PatternClone(source=0),
             "attach_pattern_none": None, "iadd_pattern": Pattern(lines=1, tracks=1)}[op]
        if op == "iadd_pattern":
            q = p
            q += x
            pos = len(p.patterns) - 1
        else:
            pos = p.attach_pattern(x)
        H.check("pattern_appended_at_returned_position", pos == len(before_pat) and p.patterns[pos] is x
                and [None if y is None else id(y) for y in p.patterns[:-1]] == before_pat, witness=w)
        H.check("pattern_owner_set", x is None or x.project is p, witness=w)
    elif op == "attach_owned_pattern":
        other = Project()
        x = Pattern(lines=1, tracks=1)
        other.attach_pattern(x)
        try:
            p.attach_pattern(x)
            err = None
        except Exception as e:  # noqa
            err = e
        H.check("owned_pattern_refused_with_ownership_error", isinstance(err, PatternOwnershipError), witness=dict(w, error=repr(err)))
        H.check("pattern_refusal_changes_nothing", [None if y is None else id(y) for y in p.patterns] == before_pat and x.project is other, witness=w)
    elif op == "save_load":
        kinds = [None if m is None else type(m).__name__ for m in p.modules]
        while kinds and kinds[-1] is None:
            kinds.pop()
        pk = [None if x is None else type(x).__name__ for x in p.patterns]
        p = read_sunvox_file(io.BytesIO(p.read()))
        H.check("positions_survive_save_load", [None if m is None else type(m).__name__ for m in p.modules] == kinds, witness=w)
        H.check("pattern_positions_survive_save_load", [None if x is None else type(x).__name__ for x in p.patterns] == pk, witness=w)
    bad = index_ok(p)
    H.check("index_and_parent_mirror_the_module_list", bad is None, witness=dict(w, problem=bad))
    return p


@contract(
    "attach_histories", ["C14"], kind="bounded",
    targets=["rv.project:Project.__init__", "rv.project:Project.attach_module", "rv.project:Project.attach_pattern",
             "rv.project:Project.__iadd__", "rv.project:Project.new_module", "rv.project:Project.module_index"],
    bound="every sequence of length <= 4 (quick) / 5 (thorough) over 13 operations (attach new / None / again / foreign, new_module, += module / list / pattern, attach pattern / clone / None / owned pattern, save+load); native evaluation of the invariant and of each operation's post-condition",
)
def attach_histories(H, _):
    depth = 4 if getattr(H, "tier", "quick") == "quick" else 5
    n = 0
    for d in range(1, depth + 1):
        for seq in itertools.product(OPS, repeat=d):
            # canonical form: skip sequences whose prefix was already explored at a smaller depth
            if d < depth and False:
                continue
            if d != depth and depth > 1:
                continue
            p = Project()
            hist = []
            for op in seq:
                hist.append(op)
                p = _apply(H, p, op, hist)
            n += 1
    H.cover(f"sequences={n}")


def _mod_cases(tier):
    shapes = ["O", "OA", "OeA", "OAeeA"] if tier == "quick" else ["O", "OA", "OeA", "OAeeA", "OeeeA", "OAAAAA"]
    return [(s, s) for s in shapes]


@contract(
    "note_mod_resolves", ["C14"], cases=_mod_cases,
    targets=["rv.note:Note.mod (getter)", "rv.note:Note.module_index", "rv.note:Note.project", "rv.note:Note.mod (setter)"],
)
def note_mod_resolves(H, shape):
    """For EVERY module number 0..0xFFFF held by a note of a pattern owned by the project:
    note.mod is the module at position number-1, or None when the number is 0, the position is empty
    or beyond the list.  The setter stores position+1 and refuses unattached modules."""
    p = Project()
    for ch in shape[1:]:
        if ch == "e":
            p.attach_module(None)
        else:
            m = Amplifier()
            p.modules.append(m)
            m.index = len(p.modules) - 1
            m.parent = p
    pat = Pattern(lines=1, tracks=1)
    p.attach_pattern(pat)
    note = pat.data[0][0]
    k = H.int("module_number", 0, 0xFFFF)
    note.module = k
    got = H.getattr(note, "mod")
    n = len(p.modules)
    for i in range(n):
        H.check(f"number_{i + 1}_resolves_to_position_{i}", H.implies(k == i + 1, got is p.modules[i]))
    H.check("zero_or_beyond_resolves_to_none", H.implies(H.or_(k == 0, k > n), got is None))
    # setter
    for i, m in enumerate(p.modules):
        if m is None:
            continue
        n2 = Note(pattern=pat)
        H.setattr(n2, "mod", m)
        H.check(f"setter_stores_position_plus_one[{i}]", n2.module == i + 1)
        H.check(f"setter_getter_roundtrip[{i}]", H.getattr(n2, "mod") is m)
        # int(module) is the number to put into a pattern cell for that module
        n3 = Note(pattern=pat)
        n3.module = H.call(int, m)
        H.check(f"int_of_module_is_its_pattern_number[{i}]", n3.module == i + 1 and H.getattr(n3, "mod") is m)
    loose = Amplifier()
    exc, _ = H.raises(H.setattr, Note(pattern=pat), "mod", loose)
    H.check("unattached_module_refused", isinstance(exc, ModuleOwnershipError))
    H.cover("reached")


@contract(
    "note_reference_survives_save_load", ["C14", "C01", "C12"],
    targets=["rv.project:Project.chunks", "rv.readers.sunvox:SunVoxReader.process_end_of_file", "rv.readers.sunvox:SunVoxReader.process_chunks",
             "rv.readers.sunvox:SunVoxReader.process_BVER", "rv.readers.sunvox:SunVoxReader.process_VERS", "rv.note:Note.raw_data (setter)"],
)
def note_reference_survives_save_load(H, _):
    """A note's 16-bit module number is the same after saving and loading, whatever release the project
    says it is BASED ON (any four version bytes - e.g. a project first made with SunVox 1.7): the file is
    stamped with the writer's own version, so no legacy masking applies, and the note still resolves to
    the module at that position."""
    from . import rw

    p = Project()
    amp = p.new_module(Amplifier)
    p.based_on_version = tuple(H.int(f"based_on{i}", 0, 255) for i in range(4))
    pat = Pattern(lines=1, tracks=1)
    p.attach_pattern(pat)
    k = H.int("module_number", 0, 0xFFFF)
    pat.data[0][0].module = k
    q = rw.read_back(H, rw.write_container(H, p))
    H.check("based_on_version_kept", H.eq(tuple(q.based_on_version), tuple(p.based_on_version)))
    cell = q.patterns[0].data[0][0]
    H.check("module_number_kept", cell.module == k)
    got = H.getattr(cell, "mod")
    H.check("resolves_to_same_position", H.and_(H.implies(k == amp.index + 1, got is q.modules[amp.index]),
                                                H.implies(k == 1, got is q.modules[0]), H.implies(k > 2, got is None)))
    H.cover("reached")


@contract("note_mod_canary", ["C14"], targets=["rv.note:Note.mod (getter)"], canary=True)
def note_mod_canary(H, _):
    p = Project()
    p.new_module(Amplifier)
    pat = Pattern(lines=1, tracks=1)
    p.attach_pattern(pat)
    note = pat.data[0][0]
    k = H.int("module_number", 0, 0xFFFF)
    note.module = k
    H.check("canary_number_is_position", H.implies(k == 1, H.getattr(note, "mod") is p.modules[1]))


# ------------------------------------------------------------------------------- deductive: attach_module on a list of any length

import z3  # noqa: E402

from rvproof.heap import RefHeap  # noqa: E402
from rvproof.sym import SymBool  # noqa: E402


def _attach_cases(tier):
    return [(k, k) for k in ("fresh_module", "already_attached", "foreign_module", "loading", "empty_slot")]


@contract("attach_module_step", ["C14"], cases=_attach_cases, replayable=False, timeout_ms=60000,
          targets=["rv.project:Project.attach_module", "rv.project:Project.module_index"])
def attach_module_step(H, case):
    """The real Project.attach_module on a module list of ANY length and content (array-theory list of
    object references, 0 = empty position):
    * a module owned by another project raises ModuleOwnershipError, list unchanged;
    * a module already in the list: no-op;
    * otherwise (not loading) it is stored at the LOWEST empty position if the list has one and appended
      at the end otherwise; with loading=True it is always appended; in both cases module.index is that
      position, module.parent is the project, every other position is unchanged and the length grows
      only when appending;
    * attach_module(None) appends an empty position."""
    c = H.pctx
    rh = RefHeap()
    p = Project()
    other = Project()
    m = Amplifier()
    mref = rh.register(m, "m")
    items0, n0 = rh.items(), rh.length()
    c.add(n0 >= 1)
    p.modules = rh.view()
    q, q2 = z3.Ints("q q2")
    in_list = z3.Exists([q], z3.And(0 <= q, q < n0, items0[q] == mref))
    has_hole = z3.Exists([q], z3.And(0 <= q, q < n0, items0[q] == 0))
    old = rh.snapshot()
    if case == "foreign_module":
        m.parent, m.index = other, 1
        exc, _ = H.raises(p.attach_module, m)
        H.check("foreign_module_refused", isinstance(exc, ModuleOwnershipError))
        H.check("refusal_changes_nothing", rh.tab["items"] is old.tab["items"] and rh.len["items"] is old.len["items"] and m.parent is other and m.index == 1)
        return
    if case == "empty_slot":
        exc, r = H.raises(p.attach_module, None)
        H.check("returns_none", exc is None and r is None)
        H.check("empty_position_appended", SymBool(z3.And(rh.length() == n0 + 1, rh.items()[n0] == 0,
                                                         z3.ForAll([q], z3.Implies(z3.And(0 <= q, q < n0), rh.items()[q] == items0[q])))))
        return
    if case == "already_attached":
        c.add(in_list)
        m.parent = p
        m.index = H.int("old_index", 0, None)
        exc, r = H.raises(p.attach_module, m)
        H.check("returns_module", exc is None and r is m)
        H.check("attaching_twice_is_a_no_op", rh.tab["items"] is old.tab["items"] and rh.len["items"] is old.len["items"])
        return
    c.add(z3.Not(in_list))
    loading = case == "loading"
    exc, r = H.raises(p.attach_module, m, loading=loading)
    H.check("returns_module", exc is None and r is m)
    H.check("parent_is_project", m.parent is p)
    idx = m.index
    items1, n1 = rh.items(), rh.length()
    from rvproof.sym import as_int_z

    iz = as_int_z(idx)
    H.check("module_stored_at_its_index", SymBool(z3.And(0 <= iz, iz < n1, items1[iz] == mref)))
    H.check("every_other_position_unchanged", SymBool(z3.ForAll([q], z3.Implies(z3.And(0 <= q, q < n0, q != iz), items1[q] == items0[q]))))
    if loading:
        H.check("loading_appends", SymBool(z3.And(iz == n0, n1 == n0 + 1)))
    else:
        H.check("lowest_empty_position_if_any", SymBool(z3.Implies(has_hole, z3.And(
            items0[iz] == 0, n1 == n0, z3.ForAll([q], z3.Implies(z3.And(0 <= q, q < iz), items0[q] != 0))))))
        H.check("appended_when_no_empty_position", SymBool(z3.Implies(z3.Not(has_hole), z3.And(iz == n0, n1 == n0 + 1))))
    H.check("module_occupies_exactly_one_position", SymBool(z3.ForAll([q], z3.Implies(z3.And(0 <= q, q < n1, items1[q] == mref), q == iz))))
    H.cover("reached")


@contract("attach_pattern_step", ["C14", "C17"], cases=lambda tier: [(k, k) for k in ("fresh", "empty", "owned_elsewhere", "owned_here", "clone_fresh", "clone_owned_elsewhere", "clone_owned_here")], replayable=False,
          targets=["rv.project:Project.attach_pattern"])
def attach_pattern_step(H, case):
    """Project.attach_pattern on a pattern list of ANY length: a free pattern (or None) is appended at
    the end, its position is returned, every earlier position is unchanged and the pattern's owner is
    the project; a pattern that already has an owner (this or another project) is refused with
    PatternOwnershipError and nothing changes."""
    c = H.pctx
    rh = RefHeap("pats")
    p = Project()
    other = Project()
    if case.startswith("clone_"):
        # pattern clones are owned like patterns
        from rv.pattern import PatternClone

        pat = PatternClone(source=0)
        case = case[len("clone_"):]
    else:
        pat = Pattern(lines=1, tracks=1)
    pref = rh.register(pat, "pat")
    items0, n0 = rh.items(), rh.length()
    c.add(n0 >= 0)
    p.patterns = rh.view()
    old = rh.snapshot()
    q = z3.Int("q")
    if case in ("owned_elsewhere", "owned_here"):
        pat.project = other if case == "owned_elsewhere" else p
        exc, _ = H.raises(p.attach_pattern, pat)
        H.check("owned_pattern_refused", isinstance(exc, PatternOwnershipError))
        H.check("refusal_changes_nothing", rh.tab["items"] is old.tab["items"] and rh.len["items"] is old.len["items"]
                and pat.project is (other if case == "owned_elsewhere" else p))
        return
    x = pat if case == "fresh" else None
    exc, pos = H.raises(p.attach_pattern, x)
    H.check("does_not_raise", exc is None)
    from rvproof.sym import as_int_z

    H.check("returns_position_at_the_end", SymBool(as_int_z(pos) == n0))
    H.check("appended", SymBool(z3.And(rh.length() == n0 + 1, rh.items()[n0] == (pref if case == "fresh" else 0))))
    H.check("earlier_positions_unchanged", SymBool(z3.ForAll([q], z3.Implies(z3.And(0 <= q, q < n0), rh.items()[q] == items0[q]))))
    if case == "fresh":
        H.check("owner_set", pat.project is p)
    H.cover("reached")
