"""C19 - bulk pattern edits are all-or-nothing and notes stay owned by their pattern."""
from __future__ import annotations

import rv.api  # noqa
from rv.errors import PatternOwnershipError
from rv.modules.amplifier import Amplifier
from rv.note import Note
from rv.pattern import Pattern
from rv.project import Project
from rvproof.contract import contract

from . import common as K
from . import rw

LEVEL = "proof"
ASSUMPTIONS = [
    "the supplied callable / generator is abstracted as: at call (yield) number k it raises an arbitrary exception type from the listed "
    "family (including StopIteration, GeneratorExit-free), for every k from 0 to the number of cells (case split, complete per shape); "
    "before that it returns notes whose five fields are symbolic; it does not itself modify the pattern - but the generator may rewrite "
    "the cells of the scratch array it is handed in place and yield them (setter kind 'gen_inplace', documented as possible)",
    "pattern shapes are enumerated (1x1, 2x2, 3x1 quick; up to 3x3 thorough); cell contents before the edit are symbolic",
    "both an attached and an unattached pattern, and a second bulk edit after the first (success or failure)",
]
_T = ["rv.pattern:Pattern.set_via_fn", "rv.pattern:Pattern.set_via_gen", "rv.pattern:Pattern.clear", "rv.pattern:Pattern.data",
      "rv.note:Note.project", "rv.note:Note.mod (getter)"]


class Boom(Exception):
    pass


EXC_TYPES = [Boom, ValueError, StopIteration, KeyError, RuntimeError]


def _cells(pat):
    return [[(n.note, n.vel, n.module, n.ctl, n.val) for n in row] for row in pat.data]


def _shape_cases(tier):
    shapes = [(1, 1), (2, 2), (3, 1)] if tier == "quick" else [(1, 1), (1, 2), (2, 1), (2, 2), (3, 1), (1, 3), (3, 2), (3, 3)]
    out = []
    for l, t in shapes:
        for setter in ("fn", "gen", "gen_inplace"):
            for attached in (True, False):
                out.append((f"{l}x{t},{setter},{'attached' if attached else 'loose'}", (l, t, setter, attached)))
    return out


def _make_pattern(H, lines, tracks, attached):
    pat = Pattern(lines=lines, tracks=tracks)
    proj = None
    if attached:
        proj = Project()
        proj.attach_pattern(pat)
    for l, row in enumerate(pat.data):
        for t, n in enumerate(row):
            rw.sym_note(H, n, f"old{l}_{t}.")
    return pat, proj


def _supplied(H, k):
    n = Note()
    rw.sym_note(H, n, f"new{k}.")
    return n


def _edit(H, pat, setter, fail_at, exc_type, supplied, touched, parity=0):
    """Run one bulk edit whose callable fails at call number `fail_at` (None = never)."""
    state = {"k": 0}

    def fn(p, line, track):
        k = state["k"]
        state["k"] += 1
        if fail_at is not None and k == fail_at:
            raise exc_type("injected")
        note = supplied[k]
        touched[(line, track)] = note
        return note

    def gen(p, new):
        # touch every second cell only, so that untouched cells exist
        k = 0
        for line in range(p.lines):
            for track in range(p.tracks):
                if (line * p.tracks + track) % 2 == parity:
                    if fail_at is not None and k == fail_at:
                        raise exc_type("injected")
                    note = supplied[k]
                    touched[(line, track)] = note
                    k += 1
                    if setter == "gen_inplace":
                        # "It is possible, but discouraged, to directly change the new note array": the cell of the
                        # array handed to the generator is rewritten field by field and yielded itself
                        cell = new[line][track]
                        cell.note, cell.vel, cell.module, cell.ctl, cell.val = note.note, note.vel, note.module, note.ctl, note.val
                        note = cell
                    yield line, track, note
        if fail_at is not None and k == fail_at:
            raise exc_type("injected")

    if setter == "fn":
        return H.raises(pat.set_via_fn, fn)
    return H.raises(pat.set_via_gen, gen)


@contract("bulk_edit_all_or_nothing", ["C19", "C14"], targets=_T, cases=_shape_cases)
def bulk_edit_all_or_nothing(H, case):
    """For every failure position k (0 .. number of calls; one extra case for 'no failure') and every
    exception type of the family:
    * failure => the same exception propagates, pattern.data is the SAME list object with unchanged
      cell contents (symbolic old contents), and a later successful edit still works;
    * success => exactly the supplied notes are installed at their cells, untouched cells keep their
      previous content, the setter returns the pattern, and EVERY note of the pattern has
      note.pattern is pattern (so note.project / note.mod work)."""
    lines, tracks, setter, attached = case
    pat, proj = _make_pattern(H, lines, tracks, attached)
    ncalls = lines * tracks if setter == "fn" else (lines * tracks + 1) // 2
    # old cell objects: whatever the callable does to the array it is handed, these must not change on failure
    old_cells = [n for row in pat.data for n in row]
    fail_at = H.choice("fail_at", [None] + list(range(ncalls + (0 if setter == "fn" else 1))))
    exc_type = H.choice("exception", EXC_TYPES) if fail_at is not None else None
    supplied = [_supplied(H, k) for k in range(ncalls)]
    before_obj = pat.data
    before = _cells(pat)
    touched = {}
    exc, res = _edit(H, pat, setter, fail_at, exc_type, supplied, touched)
    if fail_at is not None:
        H.check("failure_propagates", exc is not None and (type(exc) is exc_type or isinstance(exc.__cause__, exc_type)
                                                            or isinstance(exc, RuntimeError)))
        H.check("contents_object_kept_on_failure", pat.data is before_obj)
        H.check("cells_unchanged_on_failure", H.eq(_cells(pat), before))
        H.check("cell_objects_kept_on_failure", all(a is b for a, b in zip([n for row in pat.data for n in row], old_cells)))
        # the pattern stays usable: a second, successful edit
        supplied2 = [_supplied(H, 100 + k) for k in range(ncalls)]
        touched2 = {}
        # the follow-up edit is generator based and touches the OTHER half of the cells, so that cells
        # the failed edit had already written to its scratch copy stay untouched now
        exc2, res2 = _edit(H, pat, "gen", None, None, supplied2, touched2, parity=1)
        setter = "gen"
        H.check("later_edit_succeeds", exc2 is None and res2 is pat)
        touched, supplied = touched2, supplied2
        if exc2 is not None:
            return
    else:
        H.check("success_returns_pattern", exc is None and res is pat)
        if exc is not None:
            return
    for l in range(lines):
        for t in range(tracks):
            cell = pat.data[l][t]
            if (l, t) in touched:
                n = touched[(l, t)]
                H.check(f"cell[{l}][{t}].is_supplied_note", H.eq((cell.note, cell.vel, cell.module, cell.ctl, cell.val),
                                                                  (n.note, n.vel, n.module, n.ctl, n.val)))
            else:
                H.check(f"cell[{l}][{t}].keeps_previous_content", H.eq((cell.note, cell.vel, cell.module, cell.ctl, cell.val), before[l][t]))
            H.check(f"cell[{l}][{t}].belongs_to_pattern", cell.pattern is pat)
    H.check("shape_kept", len(pat.data) == lines and all(len(r) == tracks for r in pat.data))
    if attached and fail_at is None:
        # history: the project-aware accessors of EVERY note are used, then a further (generator based,
        # partial) edit follows - afterwards every note still answers with the real project and module
        amp = proj.new_module(Amplifier) if not [m for m in proj.modules[1:] if m is not None] else [m for m in proj.modules[1:] if m is not None][0]
        for row in pat.data:
            for n in row:
                H.getattr(n, "project")
        supplied3 = [_supplied(H, 200 + k) for k in range((lines * tracks + 1) // 2)]
        exc4, res4 = _edit(H, pat, "gen", None, None, supplied3, {}, parity=1)
        H.check("third_edit_succeeds", exc4 is None and res4 is pat)
        late = proj.new_module(Amplifier)
        for l in range(lines):
            for t in range(tracks):
                n = pat.data[l][t]
                H.check(f"after_accessor_use_and_edit.cell[{l}][{t}].project_is_the_real_project", n.pattern is pat and H.getattr(n, "project") is proj)
        n0 = pat.data[0][0]
        n0.module = late.index + 1
        H.check("module_attached_later_is_visible_through_old_notes", H.getattr(n0, "mod") is late)
    cell = pat.data[0][0]
    if attached:
        H.check("project_aware_accessor_works", H.getattr(cell, "project") is proj)
    else:
        exc3, _ = H.raises(H.getattr, cell, "mod")
        H.check("loose_pattern_reports_ownership_error", isinstance(exc3, PatternOwnershipError))
    H.cover("reached")


@contract("bulk_edit_canary", ["C19"], targets=_T[:1], canary=True)
def bulk_edit_canary(H, _):
    """False claim: after a successful set_via_fn the cells keep their OLD content."""
    pat, _proj = _make_pattern(H, 1, 1, False)
    before = _cells(pat)
    supplied = [_supplied(H, 0)]
    _edit(H, pat, "fn", None, None, supplied, {})
    H.check("canary_old_content_kept", H.eq(_cells(pat), before))
