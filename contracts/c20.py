"""C20 - MultiCtl fan-out stays within each target's range and is monotone."""
from __future__ import annotations

import rv.api  # noqa
from rv.controller import CompactRange, Range
from rv.errors import ControllerValueError, MappingError
from rv.modules.amplifier import Amplifier
from rv.modules.multictl import MultiCtl, convert_value
from rv.project import Project
from rvproof.contract import contract

from . import common as K
from . import links as L
from . import rw

TECHNIQUE = "contract-based deductive verification of range containment for every target span with an exact rational float model (z3); quantisation / non-default curves / monotonicity as labelled bounded stand-in"
LEVEL = "other"
LEVEL_TEXT = (
    "Mixed. Deductive (for all inputs 0..32768, all gains 0..1024, all windows in both orientations at once): range containment and "
    "monotonicity of the value delivered by the real MultiCtl.on_value_changed -> convert_value for every distinct declared target span, "
    "with the default curve, without quantisation (and, thorough tier, containment on the quantisation path for six enumerated quantisation values); "
    "the macro helper's structure; the 'unset mapping leaves the target untouched' frame; mappings stay attached to their output SLOT across freed slots. "
    "Floats are modelled exactly (rvproof.floats). Bounded: the quantisation path (division by a symbolic step: non-linear) and arbitrary "
    "monotone curves are checked by exhaustive enumeration of the value axis for enumerated parameter tuples (bounded_parts)."
)
EXPLANATION = LEVEL_TEXT
ASSUMPTIONS = [
    "binary64 model of rvproof.floats (exact dyadic arithmetic, correctly rounded otherwise)",
    "targets: one representative controller per distinct (kind, min, max) among all ranged controllers of all module types (the delivered value "
    "depends on the target only through its value type), plus every (type, controller) pair for the macro helper",
    "mapping windows range over 0..0x8000 for scaled targets and over 0..span (controller units) for the compact kind, which is how MultiCtl.macro and SunVox build them",
    "bounded part: quantisation 1..32767 and non-default monotone curves: all 32769 inputs for the parameter tuples listed in the contract",
]
_T = ["rv.modules.multictl:convert_value", "rv.modules.multictl:MultiCtl.on_value_changed", "rv.modules.multictl:MultiCtl.macro",
      "rv.modules.multictl:MultiCtl.__init__", "rv.modules.multictl:MultiCtl.Mapping.__init__", "rv.controller:Controller.__set__"]


def _target_cases(tier):
    seen = {}
    for cid, (cname, name) in K.controller_cases(tier):
        t = K.class_by_name(cname).controllers[name].value_type
        if isinstance(t, Range):
            key = (type(t).__name__, t.min, t.max)
            seen.setdefault(key, (cid, (cname, name)))
    return [v for _k, v in sorted(seen.items())]


def _rig(cname, name):
    p = Project()
    cls = K.class_by_name(cname)
    target = p.new_module(cls)
    mc = p.new_module(MultiCtl)
    p.connect(mc, target)
    number = list(cls.controllers).index(name) + 1
    mc.mappings.values[0] = MultiCtl.Mapping((0, 0x8000, number, 0, 0, 0, 0, 0))
    return p, mc, target


def _deliver(H, cname, name, value, gain, wmin, wmax, q=32768):
    p, mc, target = _rig(cname, name)
    mc.controller_values["gain"] = gain
    mc.controller_values["quantization"] = q
    mp = mc.mappings.values[0]
    mp.min, mp.max = wmin, wmax
    K.strict()
    exc, _ = H.raises(H.setattr, mc, "value", value)
    return exc, target.controller_values[name], target


@contract("fanout_in_range", ["C20"], targets=_T, cases=_target_cases, timeout_ms=60000)
def fanout_in_range(H, case):
    """For the target's declared range [min,max], every input value, every gain 0..1024, every window
    (wmin,wmax) in either orientation, no quantisation, default curve: assigning MultiCtl.value does
    not raise (the delivered value passes the strict range check) and lies in [min,max]; the other
    controllers of the target are untouched.  (Monotonicity in the input is a two-copy non-linear
    obligation that neither z3 nor cvc5 decides within the budget; it is covered by the exhaustive
    value-axis enumeration of quantised_and_curved_fanout: bounded.)"""
    cname, name = case
    t = K.class_by_name(cname).controllers[name].value_type
    value = H.int("value", 0, 32768)
    gain = H.int("gain", 0, 1024)
    # a compact target takes its window in controller units (0..span), every other target in 0..0x8000
    wtop = (t.max - t.min) if isinstance(t, CompactRange) else 32768
    wmin = H.int("wmin", 0, wtop)
    wmax = H.int("wmax", 0, wtop)
    orient = H.choice("window", ["normal", "reversed"])
    H.assume(wmin <= wmax if orient == "normal" else wmin > wmax)
    exc, got, target = _deliver(H, cname, name, value, gain, wmin, wmax)
    H.check("delivery_does_not_raise", exc is None)
    if exc is not None:
        return
    H.check("delivered_within_declared_range", H.and_(got >= t.min, got <= t.max))
    fresh = type(target)()
    H.check("other_controllers_untouched", H.eq({k: v for k, v in target.controller_values.items() if k != name},
                                                {k: v for k, v in fresh.controller_values.items() if k != name}))
    H.cover("reached")


@contract("unset_mapping_leaves_target_untouched", ["C20"], targets=_T[:2])
def unset_mapping_leaves_target_untouched(H, _):
    """A link whose mapping names no controller (controller number 0): setting any value changes no
    controller of the target and does not raise."""
    p, mc, target = _rig("Amplifier", "volume")
    mc.mappings.values[0].controller = 0
    before = dict(target.controller_values)
    value = H.int("value", 0, 32768)
    mc.controller_values["gain"] = H.int("gain", 0, 1024)
    exc, _ = H.raises(H.setattr, mc, "value", value)
    H.check("does_not_raise", exc is None)
    H.check("target_untouched", H.eq(dict(target.controller_values), before))
    H.check("value_stored_on_multictl", H.eq(mc.controller_values["value"], value))


def _class_cases(tier):
    return [(K.cls_id(c), K.cls_id(c)) for c in K.module_classes() if c.mtype not in ("Output",) and c.controllers]


@contract("macro_builds_linked_multictl", ["C20", "C01"], targets=_T[2:5], cases=_class_cases)
def macro_builds_linked_multictl(H, cname):
    """MultiCtl.macro(project, (module, controller)) for every controller of the class (by name and by
    Controller object): returns a MultiCtl attached to the project, linked to the target (tables
    consistent), with one 8-field mapping naming the controller's number; an initial value is applied."""
    cls = K.class_by_name(cname)
    for name, ctl in cls.controllers.items():
        if name.startswith("user_defined_"):
            continue
        p = Project()
        target = p.new_module(cls)
        how = ctl if (ctl.number % 2 == 0) else name
        exc, mc = H.raises(MultiCtl.macro, p, (target, how), name="macro", x=3, y=4, layer=1)
        H.check(f"macro_succeeds[{name}]", exc is None and type(mc) is MultiCtl)
        if exc is not None or type(mc) is not MultiCtl:
            continue
        H.check(f"attached[{name}]", mc.parent is p and p.modules[mc.index] is mc and (mc.name, mc.x, mc.y, mc.layer) == ("macro", 3, 4, 1))
        H.check(f"linked[{name}]", mc.out_links == [target.index] and target.in_links == [mc.index] and L.links_ok(p) is None)
        mp = mc.mappings.values[0]
        H.check(f"mapping_names_controller[{name}]", mp.controller == ctl.number)
        H.check(f"mapping_has_8_fields[{name}]", all(hasattr(mp, f) for f in ("min", "max", "controller", "flags", "future_use2", "future_use3", "future_use4", "future_use5")))
        H.check(f"other_mappings_default[{name}]", all(x.controller == 0 for x in mc.mappings.values[1:]))
    # the target sits in a position that was EMPTY before (a project with a hole, as loaded files have):
    # the macro must link to that very module
    name, ctl = next((n, c) for n, c in cls.controllers.items() if not n.startswith("user_defined_"))
    p = Project()
    p.attach_module(None)
    bystander = p.new_module(Amplifier)
    p.attach_module(None)
    p.new_module(Amplifier)
    p.modules[bystander.index] = None  # leaves holes at positions 1 and 2, a module at 3
    target = p.new_module(cls)
    exc, mc = H.raises(MultiCtl.macro, p, (target, name))
    H.check("macro_into_project_with_holes_succeeds", exc is None and type(mc) is MultiCtl)
    if exc is None and type(mc) is MultiCtl:
        H.check("macro_links_the_module_in_the_filled_hole", len(mc.out_links) == 1 and p.modules[mc.out_links[0]] is target
                and target.in_links == [mc.index] and p.modules[mc.index] is mc)
    # a macro built with nothing but the defaults of the public API is part of a project that can be
    # saved and loaded again (C01), and the MultiCtl comes back with its mapping, gain and link
    name, ctl = next((n, c) for n, c in cls.controllers.items() if not n.startswith("user_defined_"))
    p = Project()
    target = p.new_module(cls)
    exc, mc = H.raises(MultiCtl.macro, p, (target, name))
    H.check("default_macro_succeeds", exc is None and type(mc) is MultiCtl)
    if exc is not None:
        return
    H.check("default_macro_has_a_text_name", isinstance(mc.name, str))
    exc, data = H.raises(rw.write_container, H, p)
    H.check("project_with_default_macro_can_be_saved", exc is None)
    if exc is not None:
        return
    p2 = rw.read_back(H, data)
    mc2 = p2.modules[mc.index] if len(p2.modules) > mc.index else None
    H.check("default_macro_reloads", type(mc2) is MultiCtl and mc2.name == mc.name and mc2.gain == mc.gain
            and mc2.out_links == mc.out_links and L.links_ok(p2) is None)
    if type(mc2) is MultiCtl:
        a, b = mc.mappings.values[0], mc2.mappings.values[0]
        H.check("default_macro_mapping_reloads", (b.min, b.max, b.controller) == (a.min, a.max, a.controller))


@contract("macro_targets_keep_their_mappings_through_save_load", ["C20", "C08"], targets=_T[2:5] + ["rv.project:Project.chunks", "rv.readers.sunvox:SunVoxReader.process_end_of_file"])
def macro_targets_keep_their_mappings_through_save_load(H, _):
    """A macro over three targets given in DESCENDING module order (so that the link slots are not in
    module-number order): after save + load the MultiCtl's i-th link still leads to the i-th target, and a
    value sent through the loaded MultiCtl reaches every target inside that target's range."""
    from rv.modules.filter import Filter
    from rv.modules.multisynth import MultiSynth

    p = Project()
    amp = p.new_module(Amplifier)
    flt = p.new_module(Filter)
    ms = p.new_module(MultiSynth)
    mc = MultiCtl.macro(p, (ms, "transpose"), (flt, "freq"), (amp, "volume"), name="macro")
    H.check("in_memory_link_order_is_argument_order", mc.out_links == [ms.index, flt.index, amp.index])
    q = rw.read_back(H, rw.write_container(H, p))
    mc2 = q.modules[mc.index]
    order_ok = list(mc2.out_links) == [ms.index, flt.index, amp.index] and L.links_ok(q) is None
    H.check("loaded_link_order_is_argument_order", order_ok)
    if not order_ok:
        return  # the delivery clauses below presuppose the structure (mappings applied to the wrong targets are not a numeric question)
    H.check("loaded_mappings_in_argument_order", [x.controller for x in mc2.mappings.values[:3]] == [x.controller for x in mc.mappings.values[:3]])
    v = H.int("value", 0, 32768)
    exc, _r = H.raises(H.setattr, mc2, "value", v)
    H.check("delivery_after_load_does_not_raise", exc is None)
    if exc is None:
        a2, f2, m2 = q.modules[amp.index], q.modules[flt.index], q.modules[ms.index]
        H.check("delivered_within_each_targets_range", H.and_(a2.volume >= 0, a2.volume <= 1024, f2.freq >= 0, f2.freq <= 14000, m2.transpose >= -128, m2.transpose <= 128))
    H.cover("reached")


@contract("macro_refusals", ["C20"], targets=_T[2:3])
def macro_refusals(H, _):
    """More than 16 targets, or two targets on one module, raise MappingError and leave the project unchanged."""
    p = Project()
    amps = [p.new_module(Amplifier) for _ in range(17)]
    before = (len(p.modules), L.tables(p))
    exc, _ = H.raises(MultiCtl.macro, p, *[(a, "volume") for a in amps])
    H.check("seventeen_targets_refused", isinstance(exc, MappingError))
    exc2, _ = H.raises(MultiCtl.macro, p, (amps[0], "volume"), (amps[0], "balance"))
    H.check("two_targets_on_one_module_refused", isinstance(exc2, MappingError))
    H.check("refusals_change_nothing", (len(p.modules), L.tables(p)) == before)
    exc3, mc = H.raises(MultiCtl.macro, p, *[(a, "volume") for a in amps[:16]], initial=16384)
    H.check("sixteen_targets_accepted", exc3 is None and type(mc) is MultiCtl)
    if exc3 is None:
        H.check("linked_in_order", mc.out_links == [a.index for a in amps[:16]] and L.links_ok(p) is None)
        H.check("initial_value_delivered_in_range", all(0 <= a.volume <= 1024 for a in amps[:16]))


@contract("curve_set_via_fn_is_clamped", ["C20"], targets=["rv.chunks.array:ArrayChunk.set_via_fn", "rv.modules.base.multictl:BaseMultiCtl.CurveArray"])
def curve_set_via_fn_is_clamped(H, _):
    """The response curve installed with curve.set_via_fn(f), for a function f whose results at three
    positions are ANY integers (the others follow a monotone ramp that overshoots): every entry of the
    installed curve lies in the curve's declared bounds 0..32768 and equals f(x) clamped into them -
    so that a monotone f always yields a valid monotone curve."""
    p, mc, target = _rig("Amplifier", "volume")
    probes = {0: H.int("f(0)", -(2**31), 2**31), 128: H.int("f(128)", -(2**31), 2**31), 256: H.int("f(256)", -(2**31), 2**31)}

    def f(x):
        if x in probes:
            return probes[x]
        return x * 160 - 1000

    H.call(mc.curve.set_via_fn, f)
    vals = mc.curve.values
    H.check("curve_length_kept", len(vals) == 257)
    for x in (0, 1, 5, 128, 200, 255, 256):
        y = f(x)
        H.check(f"curve[{x}].within_declared_bounds", H.and_(vals[x] >= 0, vals[x] <= 32768))
        H.check(f"curve[{x}].is_f_clamped", vals[x] == H.ite(y < 0, 0, H.ite(y > 32768, 32768, y)))
    H.cover("reached")


@contract("default_curve_is_independent_of_other_multictls", ["C20", "C17"], kind="bounded",
          targets=["rv.chunks.array:ArrayChunk.reset", "rv.modules.base.multictl:BaseMultiCtl.CurveArray", "rv.modules.multictl:MultiCtl.on_value_changed"],
          bound="one history: a MultiCtl whose curve is edited in place into a non-monotone shape, then a second, macro-built MultiCtl in the same and in another project; all 32769 inputs; natively")
def default_curve_is_independent_of_other_multictls(H, _):
    """A MultiCtl that keeps its default curve delivers monotonically and in range whatever was done
    to the curve of ANOTHER MultiCtl before it was built; its curve is the documented identity ramp."""
    p = Project()
    first = p.new_module(MultiCtl)
    for i in range(0, 257, 2):
        first.curve.values[i] = (i * 37) % 32768
    for proj in (p, Project()):
        amp = proj.new_module(Amplifier)
        mc = MultiCtl.macro(proj, (amp, "volume"), name="second")
        H.check("fresh_curve_is_documented_ramp", list(mc.curve.values) == [min(32768, x * 128) for x in range(257)],
                witness={"first_difference": next((i for i, (a, b) in enumerate(zip(mc.curve.values, [x * 128 for x in range(257)])) if a != b), None)})
        prev = None
        ok_range = ok_mono = True
        bad = None
        for v in range(0, 32769):
            try:
                mc.value = v
            except Exception as e:  # noqa
                ok_range, bad = False, (v, repr(e))
                break
            got = amp.volume
            if not (0 <= got <= 1024):
                ok_range, bad = False, (v, got)
                break
            if prev is not None and got < prev:
                ok_mono, bad = False, (v, got, prev)
                break
            prev = got
        H.check("delivery_within_range", ok_range, witness={"at": bad})
        H.check("delivery_monotone", ok_mono, witness={"at": bad})


def _bounded_cases(tier):
    tuples = [("Amplifier.volume", 256, 7, 0, 32768), ("Amplifier.volume", 1024, 2, 5000, 25000), ("Amplifier.balance", 256, 32767, 32768, 0),
              ("MultiSynth.transpose", 256, 1, 0, 256), ("Flanger.delay", 256, 20, 0, 32768), ("Filter.freq", 300, 3, 25000, 5000)]
    if tier == "thorough":
        tuples += [("Amplifier.volume", g, q, a, b) for g in (0, 1, 255, 1024) for q in (1, 2, 61, 255, 32767) for a, b in ((0, 32768), (32768, 0), (100, 101))]
    return [(f"{t}/g{g}/q{q}/{a}..{b}", (t, g, q, a, b)) for t, g, q, a, b in tuples]


@contract(
    "quantised_and_curved_fanout", ["C20"], kind="bounded", cases=_bounded_cases, targets=_T[:2],
    bound="all 32769 input values for each listed (target, gain, quantisation, window) tuple, with the default curve and with three non-default monotone curves (convex k^2/2, step, concave); native evaluation",
)
def quantised_and_curved_fanout(H, case):
    """Quantisation path (non-linear, not discharged symbolically) and arbitrary monotone curves:
    every input is delivered inside the target range and monotonically."""
    tname, gain, q, wmin, wmax = case
    cname, name = tname.split(".")
    t = K.class_by_name(cname).controllers[name].value_type
    curves = {
        "default": None,
        "convex": [min(32768, (k * k) // 2) for k in range(257)],
        "step": [0 if k < 128 else 32768 for k in range(257)],
        "concave": [min(32768, int((k / 256) ** 0.5 * 32768)) for k in range(257)],
    }
    curves["installed_by_set_via_fn"] = "fn"
    for cn, curve in curves.items():
        p, mc, target = _rig(cname, name)
        if curve == "fn":
            mc.curve.set_via_fn(lambda x: x * 160 - 1000)  # monotone, leaves 0..32768 at both ends
        elif curve is not None:
            mc.curve.values = curve
        mc.gain = gain
        mc.quantization = q
        mc.mappings.values[0].min, mc.mappings.values[0].max = wmin, wmax
        prev = None
        step = 1
        for v in range(0, 32769, step):
            try:
                mc.value = v
                got = getattr(target, name)
            except ControllerValueError as e:
                H.check("delivered_within_declared_range", False, witness={"curve": cn, "input": v, "error": str(e)})
                continue
            H.check("delivered_within_declared_range", t.min <= got <= t.max, witness={"curve": cn, "input": v, "got": got})
            if prev is not None:
                ok = got >= prev if wmin <= wmax else got <= prev
                H.check("monotone_in_input", ok, witness={"curve": cn, "input": v, "prev": prev, "got": got})
            prev = got




@contract("delivery_is_history_independent", ["C20"], targets=_T[:2], cases=lambda tier: [("Amplifier.volume", ("Amplifier", "volume")), ("MultiSynth.transpose", ("MultiSynth", "transpose"))])
def delivery_is_history_independent(H, case):
    """The value delivered for (input, gain, window) does not depend on what the same MultiCtl
    delivered before: after a first delivery with one window orientation, changing the window (also to
    the opposite orientation), the gain and the input gives exactly what a fresh MultiCtl delivers."""
    cname, name = case
    t = K.class_by_name(cname).controllers[name].value_type
    wtop = (t.max - t.min) if isinstance(t, CompactRange) else 32768
    v1, v2 = H.int("v1", 0, 32768), H.int("v2", 0, 32768)
    g1, g2 = H.int("g1", 0, 1024), H.int("g2", 0, 1024)
    a1, b1 = H.int("a1", 0, wtop), H.int("b1", 0, wtop)
    a2, b2 = H.int("a2", 0, wtop), H.int("b2", 0, wtop)
    o1 = H.choice("first_window", ["normal", "reversed"])
    o2 = H.choice("second_window", ["normal", "reversed"])
    H.assume(a1 <= b1 if o1 == "normal" else a1 > b1)
    H.assume(a2 <= b2 if o2 == "normal" else a2 > b2)
    p, mc, target = _rig(cname, name)
    K.strict()
    mc.controller_values["quantization"] = 32768
    mc.controller_values["gain"] = g1
    mc.mappings.values[0].min, mc.mappings.values[0].max = a1, b1
    exc, _ = H.raises(H.setattr, mc, "value", v1)
    mc.controller_values["gain"] = g2
    mc.mappings.values[0].min, mc.mappings.values[0].max = a2, b2
    exc2, _ = H.raises(H.setattr, mc, "value", v2)
    got = target.controller_values[name]
    exc3, want, _t = _deliver(H, cname, name, v2, g2, a2, b2)
    H.check("no_delivery_raises", exc is None and exc2 is None and exc3 is None)
    H.check("same_as_fresh_multictl", H.eq(got, want))
    H.cover("reached")


@contract("mappings_follow_output_slots", ["C20", "C08"], targets=_T[:3] + ["rv.project:Project.connect"],
          cases=lambda tier: [(f"hole={h},{ctx}", (h, ctx)) for h in (0, 1) for ctx in ("in_memory", "reloaded")])
def mappings_follow_output_slots(H, case):
    """History: macro over a.volume and b.volume, a third target c linked WITHOUT a mapping, then one of the two
    mapped targets is disconnected and its mapping cleared - the MultiCtl's output table now has a freed slot
    in front of / between live slots (also after save + load, where the reader rebuilds the table with the hole).
    ensures, for every input, gain and window: the i-th mapping still belongs to the i-th output SLOT - the
    remaining mapped target receives exactly what a fresh single-link MultiCtl delivers, the unmapped target and
    the retired one keep their (symbolic) values, nothing raises."""
    import io

    from rv.readers.reader import read_sunvox_file

    hole, ctx = case
    p = Project()
    a, b, c = (p.new_module(Amplifier, name=n) for n in "abc")
    mc = MultiCtl.macro(p, (a, "volume"), (b, "volume"), name="macro")
    p.connect(mc, c)
    retired, kept = (a, b) if hole == 0 else (b, a)
    p.connect(mc, ~retired)
    mc.mappings.values[hole].controller = 0
    if ctx == "reloaded":
        p = read_sunvox_file(io.BytesIO(p.read()))
        mc, retired, kept, c = (p.modules[x.index] for x in (mc, retired, kept, c))
    slots = list(mc.out_links)
    H.check("output_table_has_the_freed_slot", slots[hole] == -1 and slots[1 - hole] == kept.index and slots[2] == c.index)
    value, gain = H.int("value", 0, 32768), H.int("gain", 0, 1024)
    wmin, wmax = H.int("wmin", 0, 32768), H.int("wmax", 0, 32768)
    orient = H.choice("window", ["normal", "reversed"])
    H.assume(wmin <= wmax if orient == "normal" else wmin > wmax)
    c0, r0 = H.int("c.volume", 0, 1024), H.int("retired.volume", 0, 1024)
    c.controller_values["volume"] = c0
    retired.controller_values["volume"] = r0
    mc.controller_values["gain"] = gain
    mc.controller_values["quantization"] = 32768
    mp = mc.mappings.values[1 - hole]
    mp.min, mp.max = wmin, wmax
    K.strict()
    exc, _ = H.raises(H.setattr, mc, "value", value)
    exc2, want, _t = _deliver(H, "Amplifier", "volume", value, gain, wmin, wmax)
    H.check("no_delivery_raises", exc is None and exc2 is None)
    H.check("mapped_target_behind_the_hole_gets_its_own_mapping", H.eq(kept.controller_values["volume"], want))
    H.check("unmapped_target_untouched", H.eq(c.controller_values["volume"], c0))
    H.check("retired_target_untouched", H.eq(retired.controller_values["volume"], r0))
    H.cover("reached")


@contract("fanout_canary", ["C20"], targets=_T[:2], canary=True)
def fanout_canary(H, _):
    """False claim: the delivered Amplifier.volume never reaches the maximum."""
    value = H.int("value", 0, 32768)
    exc, got, _t = _deliver(H, "Amplifier", "volume", value, 256, 0, 32768)
    H.check("canary_never_reaches_maximum", got < 1024)


def _quant_cases(tier):
    # measured: each of these is decided in 30-100 s; q = 32767 (step 32768/32766, not dyadic) exhausted the path budget
    # and is left to the exhaustive value-axis enumeration of quantised_and_curved_fanout (bounded)
    qs = [1, 2, 3, 17, 256, 1000]
    targets = [("Amplifier.volume", ("Amplifier", "volume")), ("Amplifier.balance", ("Amplifier", "balance"))]
    return [(f"{cid},q={q}", (c, q)) for cid, c in targets for q in qs]


@contract("quantised_fanout_in_range", ["C20"], targets=_T, cases=_quant_cases, timeout_ms=60000, tiers=("thorough",))
def quantised_fanout_in_range(H, case):
    """The quantisation path of convert_value (qsteps < 32768) for an enumerated set of quantisation values, every
    input value, every gain and every window in both orientations, default curve: the delivery does not raise under
    the strict range check and lies in the target's declared range."""
    (cname, name), q = case
    t = K.class_by_name(cname).controllers[name].value_type
    value = H.int("value", 0, 32768)
    gain = H.int("gain", 0, 1024)
    wtop = (t.max - t.min) if isinstance(t, CompactRange) else 32768
    wmin = H.int("wmin", 0, wtop)
    wmax = H.int("wmax", 0, wtop)
    orient = H.choice("window", ["normal", "reversed"])
    H.assume(wmin <= wmax if orient == "normal" else wmin > wmax)
    exc, got, target = _deliver(H, cname, name, value, gain, wmin, wmax, q=q)
    H.check("delivery_does_not_raise", exc is None)
    if exc is not None:
        return
    H.check("delivered_within_declared_range", H.and_(got >= t.min, got <= t.max))
    H.cover("reached")
