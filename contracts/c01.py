"""C01 - project save/load round trip preserves the whole project."""
from __future__ import annotations

from rv.modules.output import Output
from rv.note import Note
from rv.pattern import Pattern, PatternClone
from rv.project import Project
from rvproof.contract import contract

from . import common as K
from . import rw

LEVEL = "proof"
ASSUMPTIONS = [
    "field domains per DESIGN.md Appendix A.1 (the documented integer width of each chunk; layer 0..7, MIDI out channel 0..16, flags containing the type's default bits)",
    "the whole write_to -> read_sunvox_file pipeline (Project.chunks, Module.iff_chunks, write_chunk, the vendored Chunk class, "
    "every Reader) is symbolically executed; lengths (numbers of modules, patterns, cells, links) are concrete per case and listed "
    "under bounded_parts where a family of shapes is enumerated, all VALUES are symbolic",
    "range/bool controllers, options, MIDI-map numbers and all common fields are symbolic simultaneously; enum-typed controllers are "
    "case-split one at a time (the writer/reader treat controllers independently: shown by the frame clause of Module.set_raw in C05/C10)",
    "trailing empty module slots and midi_out_name == '' are outside the domain (the format cannot represent them)",
    "text: the module-name cut rule is discharged with SYMBOLIC code points for every UTF-8 length-class pattern around the 32-byte limit "
    "(module_name_cut_rule; patterns enumerated, code points symbolic); project / pattern / MIDI-out names and a catalogue of concrete boundary "
    "names are additionally evaluated natively (names_roundtrip, bounded part)",
]
EXPLANATION = (
    "Each obligation states `loaded.<field> == original.<field>` after symbolically executing the real writer and the real "
    "reader on a project whose field values are symbolic; one obligation per field, per module class, per path."
)

_WRITER_TARGETS = [
    "rv.container:Container.write_to", "rv.lib.iff:write_chunk", "rv.project:Project.chunks",
    "rv.modules.module:Module.iff_chunks", "rv.modules.module:Module.get_raw",
    "rv.modules.module:Module.specialized_iff_chunks", "rv.modules.module:Module.options_chunks",
    "rv.cmidmap:ControllerMidiMap.cmid_data",
]
_READER_TARGETS = [
    "rv.readers.reader:read_sunvox_file", "rv.readers.reader:Reader.process_chunks", "rv.readers.reader:Reader.rewind",
    "rv.lib.iff:chunks", "rv._vendor.chunk:Chunk.__init__", "rv._vendor.chunk:Chunk.read", "rv._vendor.chunk:Chunk.skip",
    "rv.readers.initial:InitialReader.process_SVOX", "rv.readers.sunvox:SunVoxReader.process_*",
    "rv.readers.sunvox:SunVoxReader.process_end_of_file", "rv.readers.module:ModuleReader.process_*",
    "rv.modules.module:Module.set_raw", "rv.modules.module:Module.load_cmid", "rv.modules.module:Module.load_options",
    "rv.project:Project.attach_module", "rv.project:Project.attach_pattern",
]


@contract("project_header_roundtrip", ["C01", "C12"], targets=_WRITER_TARGETS[:3] + _READER_TARGETS[:10])
def project_header_roundtrip(H, _):
    """Every project-level setting, each ranging over the full width of its chunk's integer type,
    survives write_to + read_sunvox_file; TIME/REPS may be omitted only when 0."""
    p = Project()
    rw.sym_project_fields(H, p)
    data = rw.write_container(H, p)
    q = rw.read_back(H, data)
    H.check("is_project", type(q) is Project)
    rw.check_project_fields(H, p, q)
    H.check("module_count", len(q.modules) == 1 and type(q.modules[0]) is Output)
    H.check("pattern_count", len(q.patterns) == 0)
    H.cover("reached")


def _class_cases(tier):
    return [(K.cls_id(c), K.cls_id(c)) for c in K.module_classes() if c.mtype != "Output"]


def _build_single(H, cname, in_project=True, enum_only=None, midi_split=None, light=False):
    cls = K.class_by_name(cname)
    m = cls()
    if light:
        # only the named enum controller varies (quick tier); everything else keeps its default
        ctl = cls.controllers[enum_only]
        m.controller_values[enum_only] = H.enum("c." + enum_only, ctl.value_type)
        return m
    rw.sym_module_common(H, m, in_project=in_project)
    rw.sym_controllers(H, m, only=enum_only)
    rw.sym_options(H, m)
    rw.sym_midi_maps(H, m, split=midi_split)
    return m


@contract(
    "module_in_project_roundtrip", ["C01"], targets=_WRITER_TARGETS + _READER_TARGETS, cases=_class_cases,
)
def module_in_project_roundtrip(H, cname):
    """Project [Output, <module of the class>] with every common field, every range/bool controller,
    every option and every MIDI-map number symbolic: after save + load the module at position 1 is of
    the same class and all of these read back equal; position 0 is still the Output."""
    p = Project()
    m = _build_single(H, cname)
    p.attach_module(m)
    data = rw.write_container(H, p)
    q = rw.read_back(H, data)
    H.check("module_count", len(q.modules) == 2)
    H.check("output_first", type(q.modules[0]) is Output)
    m2 = q.modules[1]
    rw.check_module_common(H, m, m2)
    rw.check_controllers(H, m, m2)
    rw.check_options(H, m, m2)
    rw.check_midi_maps(H, m, m2)
    H.check("index_and_parent", m2.index == 1 and m2.parent is q)
    H.cover("reached")


def _enum_ctl_cases(tier):
    out = []
    for cid, (cname, name) in K.controller_cases(tier):
        cls = K.class_by_name(cname)
        if K.is_enum_type(cls.controllers[name].value_type):
            out.append((cid, (cname, name)))
    return out


@contract(
    "enum_controller_roundtrip", ["C01", "C02"], targets=_WRITER_TARGETS + _READER_TARGETS, cases=_enum_ctl_cases,
)
def enum_controller_roundtrip(H, case):
    """Every member of every enum-typed controller survives the project round trip (all other
    range/bool controllers symbolic at the same time); units: dependants re-validate under the loaded unit."""
    cname, name = case
    p = Project()
    m = _build_single(H, cname, enum_only=name, light=getattr(H, "tier", "quick") == "quick")
    p.attach_module(m)
    q = rw.read_back(H, rw.write_container(H, p))
    m2 = q.modules[1]
    rw.check_controllers(H, m, m2)
    H.check("is_member", isinstance(m2.controller_values[name], type(m).controllers[name].value_type))
    H.cover("reached")


def _pattern_shape_cases(tier):
    return [("2x2", (2, 2))] if tier == "quick" else [("2x2", (2, 2)), ("1x1", (1, 1)), ("3x2", (3, 2)), ("1x5", (1, 5))]


@contract(
    "pattern_slots_roundtrip", ["C01"],
    targets=_WRITER_TARGETS[:3] + ["rv.pattern:Pattern.iff_chunks", "rv.pattern:PatternClone.iff_chunks", "rv.pattern:Pattern.raw_data",
                                   "rv.readers.pattern:PatternReader.process_*", "rv.readers.pattern:PatternCloneReader.process_*",
                                   "rv.readers.sunvox:SunVoxReader.process_PDTA", "rv.readers.sunvox:SunVoxReader.process_PPAR",
                                   "rv.readers.sunvox:SunVoxReader.process_PEND", "rv.project:Project.attach_pattern"],
    cases=_pattern_shape_cases,
)
def pattern_slots_roundtrip(H, shape):
    """Pattern list [pattern, empty, clone, pattern(named)] with every numeric field and every note cell
    symbolic: the loaded list has the same length, the same kind of entry at every position (empty
    positions included) and equal contents; loaded patterns belong to the loaded project."""
    lines, tracks = shape
    p = Project()
    a = Pattern(lines=lines, tracks=tracks)
    rw.sym_pattern(H, a, "a.")
    c = PatternClone(source=0)
    rw.sym_clone(H, c)
    b = Pattern(lines=1, tracks=1, name="second pattern")
    rw.sym_pattern(H, b, "b.")
    for x in (a, None, c, b):
        p.attach_pattern(x)
    q = rw.read_back(H, rw.write_container(H, p))
    H.check("pattern_list_length", len(q.patterns) == 4)
    if len(q.patterns) != 4:
        return
    rw.check_pattern(H, a, q.patterns[0], "slot0")
    H.check("slot1.empty", q.patterns[1] is None)
    rw.check_clone(H, c, q.patterns[2], "slot2")
    rw.check_pattern(H, b, q.patterns[3], "slot3")
    H.check("ownership", all(x is None or x.project is q for x in q.patterns))
    H.cover("reached")


def _module_slot_cases(tier):
    shapes = ["OAeA", "OeeA", "OAA"] if tier == "quick" else ["OAeA", "OeeA", "OAA", "OeAeA", "OAeeA"]
    return [(s, s) for s in shapes]


@contract(
    "module_slots_roundtrip", ["C01", "C14"], targets=_WRITER_TARGETS + _READER_TARGETS, cases=_module_slot_cases,
)
def module_slots_roundtrip(H, shape):
    """Module list with empty positions in the middle (built through the API), each amplifier with a
    symbolic volume: position by position the loaded list equals the original (None stays None), and
    index / parent agree with the position."""
    from rv.modules.amplifier import Amplifier

    p = Project()
    mods = {}
    for i, ch in enumerate(shape):
        if i == 0:
            continue
        if ch == "e":
            p.attach_module(None)
        else:
            m = Amplifier(name=f"amp {i}")
            m.controller_values["volume"] = H.int(f"vol{i}", 0, 1024)
            p.modules.append(None)  # reserve the slot so that gap filling does not move it
            p.modules.pop()
            p.attach_module(m, loading=True)
            mods[i] = m
    H.check("built_as_described", len(p.modules) == len(shape) and all((p.modules[i] is None) == (ch == "e") for i, ch in enumerate(shape)))
    q = rw.read_back(H, rw.write_container(H, p))
    H.check("module_list_length", len(q.modules) == len(shape))
    for i, ch in enumerate(shape):
        if i >= len(q.modules):
            break
        m2 = q.modules[i]
        if ch == "e":
            H.check(f"slot[{i}].empty", m2 is None)
        elif ch == "O":
            H.check(f"slot[{i}].output", type(m2) is Output and q.output is m2)
        else:
            ok = type(m2) is Amplifier
            H.check(f"slot[{i}].same_class", ok)
            if ok:
                H.check(f"slot[{i}].volume", m2.controller_values["volume"] == mods[i].controller_values["volume"])
                H.check(f"slot[{i}].name", m2.name == mods[i].name)
                H.check(f"slot[{i}].index_parent", m2.index == i and m2.parent is q)
    H.cover("reached")


# ------------------------------------------------------------------------------- text (bounded catalogue)

_CLASS_CP = {1: [0x01, 0x41, 0x7F], 2: [0x80, 0xE9, 0x7FF], 3: [0x800, 0x20AC, 0xD7FF, 0xE000, 0xFFFF], 4: [0x10000, 0x1F600, 0x10FFFF]}


# leading / trailing / inner white space is part of a name ("all Unicode names without NUL")
WHITESPACE_NAMES = [" lead", "trail ", " both ", " ", "   ", "tab\tinside", "\ttab first", "line\nbreak", "nbsp\u00a0", "\u3000wide space"]


def _name_catalogue(tier):
    """Names described by UTF-8 length-class patterns whose total length ranges across the 32-byte
    limit, with the straddling character of every class at every possible offset."""
    names = ["", "x", "Amplifier", "plain ascii name that is longer than thirty-two bytes"] + WHITESPACE_NAMES
    for last_class in (1, 2, 3, 4):
        for fill_class in (1, 2, 3, 4):
            for lead in range(0, fill_class):  # shift the phase of the filler sequence
                for total_before in range(26, 33):
                    s = "a" * lead
                    k = 0
                    while len(s.encode()) + fill_class <= total_before:
                        s += chr(_CLASS_CP[fill_class][k % len(_CLASS_CP[fill_class])])
                        k += 1
                    s += "b" * (total_before - len(s.encode()))
                    for cp in _CLASS_CP[last_class]:
                        names.append(s + chr(cp) + "tail")
    if tier == "quick":
        names = names[::5] + names[:4 + len(WHITESPACE_NAMES)]
    out = []
    seen = set()
    for n in names:
        if n not in seen and "\0" not in n:
            seen.add(n)
            out.append(n)
    return out


@contract(
    "names_roundtrip", ["C01", "C03", "C02"], kind="bounded",
    targets=["rv.modules.module:Module.iff_chunks", "rv.readers.module:ModuleReader.process_SNAM", "rv.readers.sunvox:SunVoxReader.process_NAME",
             "rv.readers.pattern:PatternReader.process_PNME", "rv.readers.module:ModuleReader.process_SMIN"],
    bound="a catalogue of names generated from UTF-8 length-class patterns (every class as filler, every class straddling byte 32 at every offset 26..32, boundary code points of each class); native evaluation",
)
def names_roundtrip(H, _):
    """Text fields: module name == longest prefix whose UTF-8 form fits 32 bytes (and the written file
    loads); project name, pattern name and MIDI-out name are preserved exactly."""
    from rv.modules.amplifier import Amplifier
    from spec import format as F

    import io
    from rv.readers.reader import read_sunvox_file

    for name in _name_catalogue(getattr(H, "tier", "quick")):
        p = Project()
        m = Amplifier(name=name)
        if name:
            m.midi_out_name = name
        p.attach_module(m)
        p.name = name
        pat = Pattern(lines=1, tracks=1, name=name)
        p.attach_pattern(pat)
        want = F.dec_cstring(F.enc_name32(name))
        try:
            data = p.read()
            q = read_sunvox_file(io.BytesIO(data))
            H.check("written_file_loads", True)
            H.check("module_name_is_longest_fitting_prefix", q.modules[1].name == want, witness={"name": name, "got": q.modules[1].name, "want": want})
            H.check("project_name_exact", q.name == name, witness=name)
            H.check("pattern_name_exact", q.patterns[0].name == name, witness=name)
            H.check("midi_out_name_exact", q.modules[1].midi_out_name == (name if name else None), witness=name)
            snam = [c[1] for c in F.parse_stream(data) if bytes(c[0]) == b"SNAM"][1]
            H.check("SNAM_is_spec_encoding", snam == F.enc_name32(name), witness=name)
            # the stand-alone contexts (C02): .sunsynth round trip and clone()
            from rv.synth import Synth

            f = io.BytesIO()
            Synth(m).write_to(f)
            m2 = read_sunvox_file(io.BytesIO(f.getvalue())).module
            H.check("synth_module_name_is_longest_fitting_prefix", m2.name == want, witness={"name": name, "got": m2.name, "want": want})
            m3 = m.clone()
            H.check("clone_module_name_is_longest_fitting_prefix", m3.name == want, witness={"name": name, "got": m3.name, "want": want})
            H.check("clone_midi_out_name_exact", m3.midi_out_name == (name if name else None), witness=name)
        except Exception as e:  # noqa
            H.check("written_file_loads", False, witness={"name": name, "error": f"{type(e).__name__}: {e}"})


# ------------------------------------------------------------------------------- text, symbolic code points

# sub-ranges within which the lead byte takes one decoding rule (E0 / E1-EC / ED / EE-EF, F0 / F1-F3 / F4)
_CLASS_RANGES = {1: [(0x01, 0x7F)], 2: [(0x80, 0x7FF)],
                 3: [(0x1000, 0xCFFF), (0x800, 0xFFF), (0xD000, 0xD7FF), (0xE000, 0xFFFF)],
                 4: [(0x40000, 0xFFFFF), (0x10000, 0x3FFFF), (0x100000, 0x10FFFF)]}


def _pattern_cases(tier):
    """UTF-8 length-class patterns: filler class f repeated up to byte b, then one character of class s
    (straddling or not), then an ASCII tail."""
    pats = []
    for f in (1, 2, 3, 4):
        for s in (1, 2, 3, 4):
            for before in ((29, 30, 31, 32) if tier == "quick" else range(26, 34)):
                classes = []
                used = 0
                while used + f <= before:
                    classes.append(f)
                    used += f
                classes += [1] * (before - used)
                classes += [s, 1, 1]
                pats.append(classes)
    seen, out = set(), []
    for p in pats:
        key = tuple(p)
        if key not in seen:
            seen.add(key)
            out.append(("".join(map(str, p)), p))
    if tier == "quick":
        out = out[::3]
    return out


@contract(
    "module_name_cut_rule", ["C01", "C03"], cases=_pattern_cases,
    targets=["rv.modules.module:Module.iff_chunks", "rv.readers.module:ModuleReader.process_SNAM", "rv.readers.module:ModuleReader.process_STYP"],
)
def module_name_cut_rule(H, classes):
    """Module name = one symbolic code point per position, ranging over its whole UTF-8 length class
    (for the characters around the cut every lead-byte sub-range of the class is case-split, fillers
    range over the largest sub-range; NUL and surrogates excluded): the SNAM chunk is 32 bytes, equals the
    spec encoding, the file loads, and the loaded name is exactly the longest prefix whose UTF-8 form
    fits 32 bytes - for every such name at once."""
    from rv.modules.amplifier import Amplifier
    from rvproof import strings
    from spec import format as F

    cps = []
    for i, cl in enumerate(classes):
        lo, hi = H.choice(f"range{i}", _CLASS_RANGES[cl]) if len(_CLASS_RANGES[cl]) > 1 and i >= len(classes) - 4 else _CLASS_RANGES[cl][0]
        cps.append(H.int(f"cp{i}", lo, hi))
    name = strings.mkstr(cps)
    # longest prefix that fits: decided by the classes alone
    used, k = 0, 0
    for cl in classes:
        if used + cl > 32:
            break
        used += cl
        k += 1
    want = strings.mkstr(cps[:k])
    m = Amplifier()
    m.name = name
    chunks = list(H.call(m.iff_chunks, in_project=True))
    snam = [c[1] for c in chunks if c[0] == b"SNAM"][0]
    H.check("SNAM_is_32_bytes", len(snam) == 32)
    enc = want.encode("utf8") if not isinstance(want, str) else want.encode("utf8")
    H.check("SNAM_is_prefix_then_zero_padding", H.eq(snam, rw.join([enc, b"\0" * (32 - used)])))
    p = Project()
    p.attach_module(m)
    q = rw.read_back(H, rw.write_container(H, p))
    H.check("written_file_loads", len(q.modules) == 2)
    H.check("loaded_name_is_longest_fitting_prefix", H.eq(q.modules[1].name, want))
    H.cover("reached")


def _sparse_cases(tier):
    return [("Echo", "Echo"), ("Filter", "Filter"), ("Sampler", "Sampler")] + ([("Fmx", "Fmx"), ("MetaModule", "MetaModule")] if tier == "thorough" else [])


@contract("sparse_bindings_roundtrip", ["C01", "C02", "C03"], targets=_WRITER_TARGETS + _READER_TARGETS, cases=_sparse_cases)
def sparse_bindings_roundtrip(H, cname):
    """Controller MIDI bindings that were touched for only SOME controllers and in a different order than
    the declaration order (the maps live in a dict that is filled on first access): each binding comes
    back on the controller it was made for, in both contexts, and both writers emit the same CMID."""
    from rv.cmidmap import MidiMessageType, Slope
    from rv.synth import Synth

    cls = K.class_by_name(cname)
    m = cls()
    names = [n for n, c in cls.controllers.items() if c.attached(m)]
    picks = [names[-1], names[len(names) // 2], names[1]] if len(names) >= 3 else names[::-1]
    want = {}
    for i, n in enumerate(picks):  # touched last-to-first
        mm = m.controller_midi_maps[n]
        mm.channel = H.int(f"ch.{n}", 0, 255)
        mm.message_parameter = H.int(f"par.{n}", 0, 0xFFFF)
        mm.message_type = [MidiMessageType.control_change, MidiMessageType.nrpn, MidiMessageType.pitch_bend][i % 3]
        mm.slope = [Slope.exp1, Slope.toggle, Slope.cut][i % 3]
        want[n] = (mm.message_type, mm.channel, mm.slope, mm.message_parameter)
    ctx = H.choice("context", ["project", "synth"])
    if ctx == "project":
        p = Project()
        p.attach_module(m)
        q = rw.read_back(H, rw.write_container(H, p)).modules[1]
    else:
        q = rw.read_back(H, rw.write_container(H, Synth(m))).module
    for n in names:
        b = q.controller_midi_maps[n]
        if n in want:
            t, ch, sl, par = want[n]
            H.check(f"binding[{n}].kept_on_its_controller", H.and_(b.message_type == t, H.eq(b.channel, ch), b.slope == sl, H.eq(b.message_parameter, par)))
        else:
            H.check(f"binding[{n}].still_unset", b.message_type == MidiMessageType.unset and b.channel == 0 and b.message_parameter == 0)
    H.cover("reached")


@contract("roundtrip_canary", ["C01", "C02"], targets=["rv.container:Container.write_to", "rv.readers.reader:read_sunvox_file"], canary=True)
def roundtrip_canary(H, _):
    """False claim that must be refuted and replayed: layer survives for every int32 (it is written
    signed and read unsigned, so negative layers do not)."""
    from rv.modules.amplifier import Amplifier

    p = Project()
    m = Amplifier()
    m.layer = H.int("layer", *K.I32)
    p.attach_module(m)
    q = rw.read_back(H, rw.write_container(H, p))
    H.check("canary_any_int32_layer_survives", q.modules[1].layer == m.layer)
