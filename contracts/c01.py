"""C01 - project save/load round trip preserves the whole project."""
from __future__ import annotations

from rv.modules.output import Output
from rv.note import Note
from rv.pattern import Pattern, PatternClone
from rv.project import Project
from rvproof.contract import contract

from . import common as K
from . import rw

LEVEL = "proof"
ASSUMPTIONS = [
    "field domains per DESIGN.md Appendix A.1 (the documented integer width of each chunk; layer 0..7, MIDI out channel 0..16, flags containing the type's default bits)",
    "the whole write_to -> read_sunvox_file pipeline (Project.chunks, Module.iff_chunks, write_chunk, the vendored Chunk class, "
    "every Reader) is symbolically executed; lengths (numbers of modules, patterns, cells, links) are concrete per case and listed "
    "under bounded_parts where a family of shapes is enumerated, all VALUES are symbolic",
    "range/bool controllers, options, MIDI-map numbers and all common fields are symbolic simultaneously; enum-typed controllers are "
    "case-split one at a time (the writer/reader treat controllers independently: shown by the frame clause of Module.set_raw in C05/C10)",
    "trailing empty module slots and midi_out_name == '' are outside the domain (the format cannot represent them)",
    "text: strings are enumerated from a catalogue of boundary shapes around the 32-byte limit (bounded part); the cut rule itself is a clause",
]
EXPLANATION = (
    "Each obligation states `loaded.<field> == original.<field>` after symbolically executing the real writer and the real "
    "reader on a project whose field values are symbolic; one obligation per field, per module class, per path."
)

_WRITER_TARGETS = [
    "rv.container:Container.write_to", "rv.lib.iff:write_chunk", "rv.project:Project.chunks",
    "rv.modules.module:Module.iff_chunks", "rv.modules.module:Module.get_raw",
    "rv.modules.module:Module.specialized_iff_chunks", "rv.modules.module:Module.options_chunks",
    "rv.cmidmap:ControllerMidiMap.cmid_data",
]
_READER_TARGETS = [
    "rv.readers.reader:read_sunvox_file", "rv.readers.reader:Reader.process_chunks", "rv.readers.reader:Reader.rewind",
    "rv.lib.iff:chunks", "rv._vendor.chunk:Chunk.__init__", "rv._vendor.chunk:Chunk.read", "rv._vendor.chunk:Chunk.skip",
    "rv.readers.initial:InitialReader.process_SVOX", "rv.readers.sunvox:SunVoxReader.process_*",
    "rv.readers.sunvox:SunVoxReader.process_end_of_file", "rv.readers.module:ModuleReader.process_*",
    "rv.modules.module:Module.set_raw", "rv.modules.module:Module.load_cmid", "rv.modules.module:Module.load_options",
    "rv.project:Project.attach_module", "rv.project:Project.attach_pattern",
]


@contract("project_header_roundtrip", ["C01"], targets=_WRITER_TARGETS[:3] + _READER_TARGETS[:10])
def project_header_roundtrip(H, _):
    """Every project-level setting, each ranging over the full width of its chunk's integer type,
    survives write_to + read_sunvox_file; TIME/REPS may be omitted only when 0."""
    p = Project()
    rw.sym_project_fields(H, p)
    data = rw.write_container(H, p)
    q = rw.read_back(H, data)
    H.check("is_project", type(q) is Project)
    rw.check_project_fields(H, p, q)
    H.check("module_count", len(q.modules) == 1 and type(q.modules[0]) is Output)
    H.check("pattern_count", len(q.patterns) == 0)
    H.cover("reached")


def _class_cases(tier):
    return [(K.cls_id(c), K.cls_id(c)) for c in K.module_classes() if c.mtype != "Output"]


def _build_single(H, cname, in_project=True, enum_only=None, midi_split=None, light=False):
    cls = K.class_by_name(cname)
    m = cls()
    if light:
        # only the named enum controller varies (quick tier); everything else keeps its default
        ctl = cls.controllers[enum_only]
        m.controller_values[enum_only] = H.enum("c." + enum_only, ctl.value_type)
        return m
    rw.sym_module_common(H, m, in_project=in_project)
    rw.sym_controllers(H, m, only=enum_only)
    rw.sym_options(H, m)
    rw.sym_midi_maps(H, m, split=midi_split)
    return m


@contract(
    "module_in_project_roundtrip", ["C01"], targets=_WRITER_TARGETS + _READER_TARGETS, cases=_class_cases,
)
def module_in_project_roundtrip(H, cname):
    """Project [Output, <module of the class>] with every common field, every range/bool controller,
    every option and every MIDI-map number symbolic: after save + load the module at position 1 is of
    the same class and all of these read back equal; position 0 is still the Output."""
    p = Project()
    m = _build_single(H, cname)
    p.attach_module(m)
    data = rw.write_container(H, p)
    q = rw.read_back(H, data)
    H.check("module_count", len(q.modules) == 2)
    H.check("output_first", type(q.modules[0]) is Output)
    m2 = q.modules[1]
    rw.check_module_common(H, m, m2)
    rw.check_controllers(H, m, m2)
    rw.check_options(H, m, m2)
    rw.check_midi_maps(H, m, m2)
    H.check("index_and_parent", m2.index == 1 and m2.parent is q)
    H.cover("reached")


def _enum_ctl_cases(tier):
    out = []
    for cid, (cname, name) in K.controller_cases(tier):
        cls = K.class_by_name(cname)
        if K.is_enum_type(cls.controllers[name].value_type):
            out.append((cid, (cname, name)))
    return out


@contract(
    "enum_controller_roundtrip", ["C01", "C02"], targets=_WRITER_TARGETS + _READER_TARGETS, cases=_enum_ctl_cases,
)
def enum_controller_roundtrip(H, case):
    """Every member of every enum-typed controller survives the project round trip (all other
    range/bool controllers symbolic at the same time); units: dependants re-validate under the loaded unit."""
    cname, name = case
    p = Project()
    m = _build_single(H, cname, enum_only=name, light=getattr(H, "tier", "quick") == "quick")
    p.attach_module(m)
    q = rw.read_back(H, rw.write_container(H, p))
    m2 = q.modules[1]
    rw.check_controllers(H, m, m2)
    H.check("is_member", isinstance(m2.controller_values[name], type(m).controllers[name].value_type))
    H.cover("reached")
