"""C02 - every module type survives a .sunsynth round trip and Module.clone()."""
from __future__ import annotations

from rv.errors import EmptySynthError
from rv.project import Project
from rv.synth import Synth
from rvproof.contract import contract

from . import common as K
from . import rw
from .c01 import _READER_TARGETS, _WRITER_TARGETS, _build_single, _class_cases

LEVEL = "proof"
ASSUMPTIONS = [
    "per class: all common fields, all range/bool controllers, all options, all MIDI-map numbers and every element of every integer "
    "array payload are symbolic simultaneously within their element types; enum-typed controllers/array elements are case-split one at a time",
    "Fmx's float32 custom waveform: every frame is an arbitrary FINITE binary32 value, modelled as an opaque bit pattern (rvproof.floats.SymF32); "
    "the only float fact used is the library axiom 'unpack(<f) of a non-NaN pattern is a float that packs back to the same pattern and float() of it "
    "is itself' - the native contract fmx_custom_waveform_roundtrip (bounded) is that axiom's differential validation on real floats; infinities and NaN "
    "payloads are outside the stated domain",
    "the Sampler / MetaModule payloads are covered by their own contracts (C16, C15)",
    "unit-dependent controllers are verified under every unit in enum_controller_roundtrip / module_raw_codec (C10)",
]
TRUSTED = ["struct code 'f' on symbolic values: binary32 values are opaque bit patterns; axiom pack(unpack(b)) == b for non-NaN patterns, float(x) is x (no float32 arithmetic is modelled)"]
EXPLANATION = (
    "Synth(m).write_to -> read_sunvox_file(...).module (exactly what Module.clone does) is symbolically executed per module class with symbolic "
    "state; one obligation per field. The relational contract shows that the stand-alone and the in-project writer emit the same "
    "controller / binding / type-specific chunk sub-sequence for the same state."
)
_SYNTH_TARGETS = ["rv.synth:Synth.chunks", "rv.modules.module:Module.clone", "rv.readers.sunsynth:SunSynthReader.process_*",
                  "rv.readers.initial:InitialReader.process_SSYN", "rv.chunks.array:ArrayChunk.bytes", "rv.chunks.array:ArrayChunk._set_bytes",
                  "rv.chunks.chunk:Chunk.chunks", "rv.chunks.waveform:WaveformChunk.bytes", "rv.chunks.drawnwaveform:DrawnWaveformChunk.chunks",
                  "rv.modules.*:<Type>.specialized_iff_chunks", "rv.modules.*:<Type>.load_chunk"]


def _variant_cases(tier):
    out = []
    for c in K.module_classes():
        if c.mtype in ("Output",):
            continue
        for v in rw.payload_variants(c, tier):
            out.append((K.cls_id(c) if v is None else f"{K.cls_id(c)}#{v}", (K.cls_id(c), v)))
    return out


@contract("synth_roundtrip", ["C02"], targets=_WRITER_TARGETS + _READER_TARGETS + _SYNTH_TARGETS, cases=_variant_cases)
def synth_roundtrip(H, case):
    """Stand-alone context: Synth(m) written and read back gives a module of the same class with equal
    common settings (those a .sunsynth carries), controllers, options, MIDI bindings and payload."""
    cname, variant = case
    m = _build_single(H, cname, in_project=False)
    rw.sym_payload(H, m, variant=variant)
    s = Synth(m)
    data = rw.write_container(H, s)
    s2 = rw.read_back(H, data)
    H.check("is_synth", type(s2) is Synth)
    m2 = s2.module
    rw.check_module_common(H, m, m2, in_project=False)
    rw.check_controllers(H, m, m2)
    rw.check_options(H, m, m2)
    rw.check_midi_maps(H, m, m2)
    rw.check_payload(H, m, m2)
    H.cover("reached")


@contract("clone_is_synth_roundtrip", ["C02", "C17"], targets=["rv.modules.module:Module.clone"] + _SYNTH_TARGETS, cases=_variant_cases)
def clone_is_synth_roundtrip(H, case):
    """Module.clone() itself (symbolically executed): same guarantees, and the clone is a distinct object."""
    cname, variant = case
    m = _build_single(H, cname, in_project=False)
    rw.sym_payload(H, m, variant=variant)
    m2 = H.call(m.clone)
    H.check("distinct_object", m2 is not m)
    rw.check_controllers(H, m, m2)
    rw.check_options(H, m, m2)
    rw.check_payload(H, m, m2)
    H.cover("reached")


@contract("payload_in_project_roundtrip", ["C02", "C01"], targets=_WRITER_TARGETS + _READER_TARGETS + _SYNTH_TARGETS, cases=_variant_cases)
def payload_in_project_roundtrip(H, case):
    """In-project context for the type-specific payload (the other writer path)."""
    cname, variant = case
    cls = K.class_by_name(cname)
    m = cls()
    rw.sym_payload(H, m, variant=variant)
    p = Project()
    p.attach_module(m)
    q = rw.read_back(H, rw.write_container(H, p))
    m2 = q.modules[1]
    H.check("same_class", type(m2) is cls)
    rw.check_payload(H, m, m2)
    H.cover("reached")


def _tail_after(chunks, first):
    names = [c[0] for c in chunks]
    i = names.index(first) if first in names else len(names)
    return chunks[i:]


@contract("both_writers_agree", ["C02"], targets=["rv.synth:Synth.chunks", "rv.project:Project.chunks"], cases=_variant_cases)
def both_writers_agree(H, case):
    """Relational: for the same module state, the CVAL.. CMID, CHNK and type-specific chunk sequence
    emitted by Synth.chunks equals the one Project.chunks emits (two duplicated code paths)."""
    cname, variant = case
    m = _build_single(H, cname, in_project=False)
    rw.sym_payload(H, m, variant=variant)
    a = rw.chunk_list(H, Synth(m))
    p = Project()
    p.attach_module(m)
    b = rw.chunk_list(H, p)
    # module section of the project stream: after the second SFFF (first is the Output)
    idx = [i for i, c in enumerate(b) if c[0] == b"SFFF"]
    bm = b[idx[1]:]
    pick = lambda seq: [c for c in seq if c[0] in (b"CVAL", b"CMID", b"CHNK", b"CHNM", b"CHDT", b"CHFF", b"CHFR", b"SEND")]  # noqa
    sa, sb = pick(a), pick(bm)
    H.check("same_chunk_ids", [c[0] for c in sa] == [c[0] for c in sb])
    H.check("same_payloads", H.eq([c[1] for c in sa], [c[1] for c in sb]))
    H.cover("reached")


@contract("empty_synth_refuses", ["C02"], targets=["rv.synth:Synth.chunks", "rv.container:Container.write_to"])
def empty_synth_refuses(H, _):
    """Synth() without a module raises EmptySynthError before anything is written."""
    s = Synth()
    f = rw.bytesio(H)
    exc, _r = H.raises(s.write_to, f)
    H.check("raises_empty_synth_error", isinstance(exc, EmptySynthError))
    H.check("nothing_written", len(f.getvalue()) == 0)


@contract(
    "fmx_custom_waveform_roundtrip", ["C02"], kind="bounded",
    targets=["rv.modules.fmx:Fmx.specialized_iff_chunks", "rv.modules.fmx:Fmx.load_chunk", "rv.chunks.array:ArrayChunk.bytes", "rv.chunks.array:ArrayChunk._set_bytes"],
    bound="native companion of the symbolic Fmx cases of synth_roundtrip / clone_is_synth_roundtrip / payload_in_project_roundtrip (which treat binary32 values as opaque bit patterns): 200 seeded random float32 vectors + boundary vectors (0, -0.0, +-1, denormal, +-max float32) through the real struct module, clone() and project round trip, compared bit-exactly",
)
def fmx_custom_waveform_roundtrip(H, _):
    """Fmx custom waveform: 256 float32 values survive clone() and a project round trip bit-exactly."""
    import random
    import struct

    from rv.modules.fmx import Fmx

    rng = H.rng or random.Random(0)

    def f32(x):
        return struct.unpack("<f", struct.pack("<f", x))[0]

    specials = [0.0, -0.0, 1.0, -1.0, 1e-45, -1e-45, 3.4028234663852886e38, -3.4028234663852886e38, 0.5, 1 / 3]
    vectors = [[f32(specials[(i + k) % len(specials)]) for i in range(256)] for k in range(len(specials))]
    for _k in range(200):
        vectors.append([f32(rng.uniform(-1, 1) * 10 ** rng.randint(-6, 6)) for _i in range(256)])
    for vec in vectors:
        m = Fmx()
        m.custom_waveform.values = list(vec)
        want = struct.pack("<256f", *vec)
        c = m.clone()
        H.check("clone_bit_exact", struct.pack("<256f", *c.custom_waveform.values) == want)
        p = Project()
        p.attach_module(m)
        q = p.clone()
        H.check("project_roundtrip_bit_exact", struct.pack("<256f", *q.modules[1].custom_waveform.values) == want)
