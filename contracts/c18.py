"""C18 - loading restores global strictness and releases files on every exit path."""
from __future__ import annotations

import ast
import glob
import io
import os
import pathlib
import tempfile

import rv.api  # noqa
import rv.errors
import rv.readers.initial
import rv.readers.reader
from rv.errors import override_raise_controller_value_errors
from rv.readers.reader import read_sunvox_file
from rvproof.contract import contract

LEVEL = "proof"
ASSUMPTIONS = [
    "modular: inside read_sunvox_file the callee `InitialReader(f).object` is replaced by a stub with the contract 'returns some object OR raises "
    "any exception, at construction or at .object; leaves the strictness flag as it found it' - the induction hypothesis for nested loads "
    "(MetaModule.load_project / Sampler effect re-enter read_sunvox_file); the stub's frame condition is discharged by the ground scan "
    "'flag_written_only_by_context_manager' over every module of the package",
    "both initial values of the flag and both override values are symbolic booleans; the exception raised by the stub ranges over a family "
    "including BaseException subclasses (KeyboardInterrupt, GeneratorExit excluded: contextlib re-raises them identically)",
    "path-opened files: Path.open is wrapped by the check to record the handle (no source hook); str and Path arguments",
]
_T = ["rv.errors:override_raise_controller_value_errors", "rv.readers.reader:read_sunvox_file"]


class Boom(Exception):
    pass


class HardStop(BaseException):
    pass


EXCS = [Boom, OSError, EOFError, RuntimeError, KeyError, HardStop, StopIteration]


def _use_override(new_value, fail_with):
    with override_raise_controller_value_errors(new_value):
        inside = rv.errors.RAISE_CONTROLLER_VALUE_ERRORS
        if fail_with is not None:
            raise fail_with("injected")
    return inside


@contract("override_restores_flag", ["C18"], targets=_T[:1])
def override_restores_flag(H, _):
    """requires any flag value `old`, any override value `new`, body returns or raises.
    ensures inside the block the flag is `new`; afterwards - normal or exceptional exit - it is `old`
    again, also when overrides are nested."""
    old = H.bool("old")
    new = H.bool("new")
    fail = H.choice("body", [None] + EXCS)
    rv.errors.RAISE_CONTROLLER_VALUE_ERRORS = old
    exc, inside = H.raises(_use_override, new, fail)
    H.check("flag_restored", H.eq(rv.errors.RAISE_CONTROLLER_VALUE_ERRORS, old))
    if fail is None:
        H.check("flag_overridden_inside", exc is None and H.eq(inside, new))
    else:
        H.check("exception_propagates_unchanged", type(exc) is fail or (fail is StopIteration and isinstance(exc, RuntimeError)))
    rv.errors.RAISE_CONTROLLER_VALUE_ERRORS = True


def _nested(new1, new2, fail_with):
    with override_raise_controller_value_errors(new1):
        a = rv.errors.RAISE_CONTROLLER_VALUE_ERRORS
        try:
            with override_raise_controller_value_errors(new2):
                b = rv.errors.RAISE_CONTROLLER_VALUE_ERRORS
                if fail_with is not None:
                    raise fail_with("inner")
        except Boom:
            pass
        c = rv.errors.RAISE_CONTROLLER_VALUE_ERRORS
    return a, b, c


@contract("override_nests", ["C18"], targets=_T[:1])
def override_nests(H, _):
    """Nested overrides (what a nested load does): the inner exit restores the outer override value,
    the outer exit restores the original."""
    old, n1, n2 = H.bool("old"), H.bool("n1"), H.bool("n2")
    fail = H.choice("inner_body", [None, Boom])
    rv.errors.RAISE_CONTROLLER_VALUE_ERRORS = old
    exc, res = H.raises(_nested, n1, n2, fail)
    H.check("no_exception", exc is None)
    if exc is None:
        a, b, c = res
        H.check("outer_value_inside", H.eq(a, n1))
        H.check("inner_value_inside", H.eq(b, n2))
        H.check("inner_exit_restores_outer_value", H.eq(c, n1))
    H.check("flag_restored", H.eq(rv.errors.RAISE_CONTROLLER_VALUE_ERRORS, old))
    rv.errors.RAISE_CONTROLLER_VALUE_ERRORS = True


class _Handle:
    """What the wrapped Path.open hands out: records close() calls."""

    def __init__(self, log):
        self.closed = False
        self.log = log
        log.append(self)

    def close(self):
        self.closed = True


class _StubReader:
    """Abstract callee of read_sunvox_file (see ASSUMPTIONS)."""

    plan = None
    seen_file = None
    flag_inside = None

    def __init__(self, f):
        if _StubReader.seen_file is None:  # the outer load only
            _StubReader.seen_file = f
            _StubReader.flag_inside = rv.errors.RAISE_CONTROLLER_VALUE_ERRORS
        if _StubReader.plan[0] == "ctor":
            raise _StubReader.plan[1]("injected in constructor")

    @property
    def object(self):
        if _StubReader.plan[0] == "object":
            raise _StubReader.plan[1]("injected in .object")
        if _StubReader.plan[0] in ("nested_ok", "nested_fail"):
            # a nested load (embedded project / effect): re-enter the real read_sunvox_file once
            inner_plan = ("ok", None) if _StubReader.plan[0] == "nested_ok" else ("object", Boom)
            outer_plan, _StubReader.plan = _StubReader.plan, inner_plan
            try:
                read_sunvox_file(io.BytesIO(b"embedded"))
            except Boom:
                pass  # e.g. a module that tolerates a broken embedded payload
            finally:
                _StubReader.plan = outer_plan
            _StubReader.flag_after_nested = rv.errors.RAISE_CONTROLLER_VALUE_ERRORS
        return "the loaded object"


@contract("load_restores_flag_and_closes_file", ["C18"], targets=_T)
def load_restores_flag_and_closes_file(H, _):
    """read_sunvox_file(arg) for arg a file object, a str path or a Path; the loader (abstract callee)
    succeeds, or raises any exception of the family at construction or while producing the object.
    ensures on return AND on raise: the strictness flag is exactly what it was before the call; during
    the load it is rv.errors.RAISE_RANGE_ERRORS_ON_READ (lenient); a file the function opened itself
    has been closed exactly when the call ends, and a caller-supplied file object is NOT closed;
    the callee received the opened file; the result / exception is passed through."""
    old = H.bool("old")
    kind = H.choice("argument", ["file", "str", "path"])
    where = H.choice("callee", ["ok", "ctor", "object", "nested_ok", "nested_fail"])
    exc_type = H.choice("exception", EXCS) if where in ("ctor", "object") else None
    _StubReader.plan = (where, exc_type)
    _StubReader.seen_file = None
    log = []
    real_reader = rv.readers.initial.InitialReader
    real_open = pathlib.Path.open
    rv.readers.initial.InitialReader = _StubReader
    pathlib.Path.open = lambda self, *a, **k: _Handle(log)
    rv.errors.RAISE_CONTROLLER_VALUE_ERRORS = old
    try:
        own = io.BytesIO(b"caller owned")
        arg = {"file": own, "str": "/nonexistent/x.sunvox", "path": pathlib.Path("/nonexistent/y.sunsynth")}[kind]
        exc, res = H.raises(read_sunvox_file, arg)
        H.check("flag_restored", H.eq(rv.errors.RAISE_CONTROLLER_VALUE_ERRORS, old))
        H.check("lenient_during_load", _StubReader.flag_inside is rv.errors.RAISE_RANGE_ERRORS_ON_READ)
        if where in ("ok", "nested_ok", "nested_fail"):
            H.check("result_passed_through", exc is None and res == "the loaded object")
            if where != "ok":
                H.check("still_lenient_after_nested_load", _StubReader.flag_after_nested is rv.errors.RAISE_RANGE_ERRORS_ON_READ)
        else:
            H.check("exception_passed_through", type(exc) is exc_type or (exc_type is StopIteration and isinstance(exc, RuntimeError)))
        if kind == "file":
            H.check("caller_file_not_closed", not own.closed and log == [] and _StubReader.seen_file is own)
        else:
            H.check("opened_exactly_one_file", len(log) == 1)
            H.check("opened_file_is_closed", len(log) == 1 and log[0].closed)
            H.check("callee_got_the_opened_file", len(log) == 1 and _StubReader.seen_file is log[0])
    finally:
        rv.readers.initial.InitialReader = real_reader
        pathlib.Path.open = real_open
        rv.errors.RAISE_CONTROLLER_VALUE_ERRORS = True
    H.cover("reached")


@contract("flag_written_only_by_context_manager", ["C18"], kind="ground",
          targets=["rv/**/*.py (every module of the package: AST scan for stores to the flag)"])
def flag_written_only_by_context_manager(H, _):
    """Frame of every function a load can reach: the only statements in the package that can store to
    rv.errors.RAISE_CONTROLLER_VALUE_ERRORS are the two assignments inside
    override_raise_controller_value_errors (no other `global` declaration, attribute store, setattr,
    globals()/vars()/exec/eval use naming it)."""
    root = os.path.join(os.environ.get("RV_REPO", "/repo"), "src", "python", "rv")
    name = "RAISE_CONTROLLER_VALUE_ERRORS"
    for path in sorted(glob.glob(os.path.join(root, "**", "*.py"), recursive=True)):
        rel = os.path.relpath(path, root)
        tree = ast.parse(open(path).read())
        writers = []
        for fn in [n for n in ast.walk(tree) if isinstance(n, (ast.FunctionDef, ast.AsyncFunctionDef, ast.Module))]:
            body_nodes = list(ast.walk(fn)) if not isinstance(fn, ast.Module) else []
            declares = any(isinstance(n, ast.Global) and name in n.names for n in body_nodes)
            if declares:
                writers.append(getattr(fn, "name", "<module>"))
        stores = []
        for n in ast.walk(tree):
            if isinstance(n, ast.Attribute) and n.attr == name and isinstance(n.ctx, (ast.Store, ast.Del)):
                stores.append(n.lineno)
            if isinstance(n, ast.Call) and getattr(n.func, "id", "") in ("setattr", "delattr") and any(
                    isinstance(a, ast.Constant) and a.value == name for a in n.args):
                stores.append(n.lineno)
            if isinstance(n, ast.Constant) and n.value == name:
                stores.append(n.lineno)
            if isinstance(n, ast.Call) and getattr(n.func, "id", "") in ("exec", "eval"):
                stores.append(n.lineno)
        if rel == "errors.py":
            cm = getattr(override_raise_controller_value_errors, "__wrapped__", override_raise_controller_value_errors).__name__
            others = [w for w in writers if w != cm and not (w.startswith("__") and w.endswith("__"))]
            # any further writer inside errors.py must not be referenced from anywhere else in the package
            used = []
            for other in sorted(glob.glob(os.path.join(root, "**", "*.py"), recursive=True)):
                if other == path:
                    continue
                t2 = ast.parse(open(other).read())
                for n in ast.walk(t2):
                    nm = getattr(n, "id", None) or getattr(n, "attr", None)
                    if isinstance(n, ast.alias):
                        nm = n.name
                    if nm in others:
                        used.append((os.path.relpath(other, root), nm))
            H.check("errors.py:only_the_context_manager_writes_the_flag_for_the_loader", used == [], witness={"writers": writers, "used": used})
            mod_assign = [n for n in tree.body if isinstance(n, ast.Assign) and any(getattr(t, "id", "") == name for t in n.targets)]
            H.check("errors.py:single_module_level_definition", len(mod_assign) == 1)
        else:
            H.check(f"{rel}:no_global_declaration", writers == [], witness=writers)
        H.check(f"{rel}:no_attribute_or_reflective_store", stores == [], witness=stores)


def _fixture_cases(tier):
    root = os.path.join(os.environ.get("RV_REPO", "/repo"), "tests", "files")
    names = ["metamodule.sunsynth", "sampler.sunsynth", "single-fm.sunvox", "amplifier.sunsynth"] if tier == "quick" else None
    files = sorted(glob.glob(os.path.join(root, "*.sun*")))
    if names:
        files = [f for f in files if os.path.basename(f) in names]
    return [(os.path.basename(f), f) for f in files]


class _Faulty(io.BytesIO):
    def __init__(self, data, fail_at):
        super().__init__(data)
        self.n = 0
        self.fail_at = fail_at

    def read(self, *a):
        k = self.n
        self.n += 1
        if k == self.fail_at:
            raise OSError("injected read fault")
        return super().read(*a)


@contract("fixture_fault_enumeration", ["C18"], kind="bounded", cases=_fixture_cases, targets=_T + ["rv.readers.*", "rv.modules.metamodule:MetaModule.load_project"],
          bound="fixtures (quick: 4 incl. nested-load ones; thorough: all top-level), a read fault injected at every read-call index (quick: every 5th), truncation at every chunk boundary, both initial flag values; native run of the whole real loader")
def fixture_fault_enumeration(H, path):
    """Run-time evaluation of the same post-condition on whole real loads (including nested loads of
    embedded projects / effects): after success or failure the flag is what it was before."""
    data = open(path, "rb").read()
    probe = _Faulty(data, None)
    read_sunvox_file(probe)
    total = probe.n
    step = 1 if getattr(H, "tier", "quick") == "thorough" else 5
    for initial in (True, False):
        for k in list(range(0, total + 1, step)) + [total]:
            rv.errors.RAISE_CONTROLLER_VALUE_ERRORS = initial
            f = _Faulty(data, k)
            try:
                read_sunvox_file(f)
            except BaseException:  # noqa
                pass
            H.check("flag_restored_after_read_fault", rv.errors.RAISE_CONTROLLER_VALUE_ERRORS is initial,
                    witness={"file": os.path.basename(path), "fault_at_read": k, "initial": initial})
        from spec import format as F

        pos = 0
        for cid, payload in F.parse_stream(data):
            pos += 8 + len(payload)
            rv.errors.RAISE_CONTROLLER_VALUE_ERRORS = initial
            tmp = tempfile.NamedTemporaryFile(suffix=".sunvox", delete=False)
            tmp.write(data[: pos - 3])
            tmp.close()
            handles = []
            real_open = pathlib.Path.open

            def spy(self, *a, **k):
                h = real_open(self, *a, **k)
                handles.append(h)
                return h

            pathlib.Path.open = spy
            try:
                read_sunvox_file(tmp.name)
            except BaseException:  # noqa
                pass
            finally:
                pathlib.Path.open = real_open
                os.unlink(tmp.name)
            H.check("flag_restored_after_truncation", rv.errors.RAISE_CONTROLLER_VALUE_ERRORS is initial,
                    witness={"file": os.path.basename(path), "cut_at": pos - 3})
            H.check("path_opened_file_closed_after_truncation", len(handles) == 1 and handles[0].closed,
                    witness={"file": os.path.basename(path), "cut_at": pos - 3})
    rv.errors.RAISE_CONTROLLER_VALUE_ERRORS = True


@contract("override_canary", ["C18"], targets=_T[:1], canary=True)
def override_canary(H, _):
    """False claim: inside the block the flag still has its old value."""
    old, new = H.bool("old"), H.bool("new")
    rv.errors.RAISE_CONTROLLER_VALUE_ERRORS = old
    exc, inside = H.raises(_use_override, new, None)
    rv.errors.RAISE_CONTROLLER_VALUE_ERRORS = True
    H.check("canary_flag_unchanged_inside", H.eq(inside, old))
