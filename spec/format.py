"""Independent statement of the SunVox chunk format, transcribed from
docs/sunvox-file-format.rst (section names given per table) and specs/fileformat.yaml (chunks:,
chunk_types:).  Nothing here imports the library's readers or writers.

Codecs work on `bytes` and on rvproof SymBytes alike (they only use indexing, slicing and the
struct model), so the same tables serve as symbolic oracle and as native reference codec.

Documented-vs-real slips, resolved in favour of the byte-level meaning for in-domain values:
* note cell: the doc table lists byte 4 = controller, 5 = effect, 6 = XX, 7 = YY and an 8-bit module;
  SunVox's public sunvox_note struct is {u8 note, u8 vel, u16 module, u16 ctl (0xCCEE), u16 ctl_val
  (0xXXYY)} little-endian, i.e. byte 4 = effect, 5 = controller, 6 = YY, 7 = XX.  The struct reading is used.
* YAML gives cursor_line the id PATN (typo); the doc's PATL is used.
* signedness notes (LGEN 'unsigned' in the doc vs -1 = none in practice, CVAL 'unsigned' vs signed
  Vorbis finetune): payloads are compared as 4-byte two's complement, which coincides for every
  in-domain value.
* FLGS (in the YAML only), SFGS and SLnK (in neither) are written by current SunVox; they are listed
  here as extension chunks with the meaning the SunVox sources give them.
"""
from __future__ import annotations

from rvproof import models as M

# ---- scalar codecs ------------------------------------------------------------------------


def enc_u32(v):
    return M.pack("<I", v)


def enc_i32(v):
    return M.pack("<i", v)


def dec_u32(b):
    return M.unpack("<I", b)[0]


def dec_i32(b):
    return M.unpack("<i", b)[0]


def enc_version(v):  # (major, minor, rev, build) -> VERS payload: 0x01090300 for 1.9.3.0, little-endian u32
    return M.pack("BBBB", v[3], v[2], v[1], v[0])


def dec_version(b):
    a = M.unpack("BBBB", b)
    return (a[3], a[2], a[1], a[0])


def enc_rgb(c):
    return M.pack("BBB", *c)


def dec_rgb(b):
    return M.unpack("BBB", b)


def enc_cstring(s):
    return s.encode("utf8") + b"\0"


def dec_cstring(b):
    items = M.byte_items(b)
    out = []
    for x in items:
        if x == 0:
            break
        out.append(x)
    return bytes(out).decode("utf8")


def enc_name32(s):
    """string[32], zero padded: the longest prefix of s whose UTF-8 form fits 32 bytes."""
    out = b""
    for ch in s:
        e = ch.encode("utf8")
        if len(out) + len(e) > 32:
            break
        out += e
    return out + b"\0" * (32 - len(out))


# ---- tables -------------------------------------------------------------------------------
# (chunk id, Project attribute, codec, optional-when)   [doc: "Project chunks"; YAML chunks:]
PROJECT_CHUNKS = [
    ("VERS", "sunvox_version", "version", None),
    ("BVER", "based_on_version", "version", None),
    ("FLGS", "flags", "u32", None),  # YAML project_flags
    ("SFGS", None, "sfgs", None),  # extension: sync flags word
    ("BPM ", "initial_bpm", "u32", None),
    ("SPED", "initial_tpl", "u32", None),
    ("TGRD", "time_grid", "u32", None),
    ("TGD2", "time_grid2", "u32", None),
    ("GVOL", "global_volume", "u32", None),
    ("NAME", "name", "cstring", None),
    ("MSCL", "modules_scale", "u32", None),
    ("MZOO", "modules_zoom", "u32", None),
    ("MXOF", "modules_x_offset", "i32", None),
    ("MYOF", "modules_y_offset", "i32", None),
    ("LMSK", "modules_layer_mask", "u32", None),
    ("CURL", "modules_current_layer", "u32", None),
    ("TIME", "timeline_position", "i32", 0),  # omitted when 0 (YAML default 0)
    ("REPS", "restart_position", "i32", 0),
    ("SELS", "selected_module", "u32", None),
    ("LGEN", "selected_generator", "i32", None),
    ("PATN", "current_pattern", "u32", None),
    ("PATT", "current_track", "u32", None),
    ("PATL", "current_line", "u32", None),
]

# [doc: "Patterns"]
PATTERN_CHUNKS = [
    ("PDTA", None, "notes", None),
    ("PNME", "name", "cstring", "absent-if-none"),
    ("PCHN", "tracks", "u32", None),
    ("PLIN", "lines", "u32", None),
    ("PYSZ", "y_size", "u32", None),
    ("PFLG", "flags_PFLG", "u32", None),
    ("PICO", "icon", "bytes32", None),
    ("PFGC", "fg_color", "rgb", None),
    ("PBGC", "bg_color", "rgb", None),
    ("PFFF", "flags_PFFF", "u32", None),
    ("PXXX", "x", "i32", None),
    ("PYYY", "y", "i32", None),
]
# [doc: "Pattern clones"]
CLONE_CHUNKS = [
    ("PPAR", "source", "u32", None),
    ("PFFF", "flags_PFFF", "u32", None),
    ("PXXX", "x", "i32", None),
    ("PYYY", "y", "i32", None),
]
# [doc: "Module chunks"]  in_project: SXXX SYYY SZZZ SVPR only in .sunvox
MODULE_CHUNKS = [
    ("SFFF", "flags", "u32", None),
    ("SNAM", "name", "name32", None),
    ("STYP", "mtype", "cstring", "absent-for-output"),
    ("SFIN", "mod_finetune", "i32", None),
    ("SREL", "mod_relative_note", "i32", None),
    ("SXXX", "x", "i32", "project-only"),
    ("SYYY", "y", "i32", "project-only"),
    ("SZZZ", "layer", "i32", "project-only"),
    ("SSCL", "scale", "u32", None),
    ("SVPR", "visualization", "u32", "project-only"),
    ("SCOL", "color", "rgb", None),
    ("SMII", None, "midi_in", None),
    ("SMIN", "midi_out_name", "cstring", "absent-if-none"),
    ("SMIC", "midi_out_channel", "u32", None),
    ("SMIB", "midi_out_bank", "i32", None),
    ("SMIP", "midi_out_program", "i32", None),
]
MODULE_TAIL = ["SLNK", "SLnK", "CVAL", "CMID", "CHNK"]  # then CHNM/CHDT/CHFF/CHFR groups, then SEND

# [doc: "Options chunks"]
OPTIONS_CHNM = {"Analog generator": 0x01, "MetaModule": 0x02, "MultiSynth": 0x01, "Sampler": 0x0101, "Sound2Ctl": 0x00}

# [doc: "Sampler global configuration (CHNM 0)"], extended by the three trailing int32 fields of
# current SunVox (max_version, editor cursor, editor selected size): 0x184 + 12 = 400 bytes.
SAMPLER_RECORD_LEN = 400
SAMPLER_OFFSETS = {
    "samples_num_u16": 0x1C,
    "legacy_note_map": (0x24, 96),
    "legacy_vol_points": (0x84, 48),
    "legacy_pan_points": (0xB4, 48),
    "vol_points_num": 0xE4, "pan_points_num": 0xE5,
    "vol_sustain": 0xE6, "vol_loop_start": 0xE7, "vol_loop_end": 0xE8,
    "pan_sustain": 0xE9, "pan_loop_start": 0xEA, "pan_loop_end": 0xEB,
    "vol_bitmap": 0xEC, "pan_bitmap": 0xED,
    "vibrato_type": 0xEE, "vibrato_attack": 0xEF, "vibrato_depth": 0xF0, "vibrato_rate": 0xF1,
    "volume_fadeout_u16": 0xF2,
    "sign": (0xFC, 4), "version_u32": 0x100,
    "note_map": (0x104, 119),
    "reserved_zeros": (0x17B, 9),
    "max_version_u32": 0x184, "editor_cursor_i32": 0x188, "editor_selected_size_i32": 0x18C,
}


def codec(kind):
    return {
        "u32": (enc_u32, dec_u32, 4),
        "i32": (enc_i32, dec_i32, 4),
        "version": (enc_version, dec_version, 4),
        "rgb": (enc_rgb, dec_rgb, 3),
        "cstring": (enc_cstring, dec_cstring, None),
        "name32": (enc_name32, dec_cstring, 32),
        "bytes32": (lambda b: b, lambda b: b, 32),
    }[kind]


def enc_midi_in(always, channel):
    """[doc: "MIDI in"] first bit = always flag, remaining bits = channel shifted left by 1."""
    return enc_u32(channel * 2 + (1 if always is True else 0 if always is False else always))


def dec_midi_in(b):
    w = dec_u32(b)
    return w % 2 == 1, w // 2


def enc_sfgs(midi, other):
    return enc_u32(midi + other * 8)


def dec_sfgs(b):
    w = dec_u32(b)
    return w % 8, (w // 8) % 8


def enc_note(note, vel, module, ctl, val):
    return M.pack("<BBHHH", note, vel, module, ctl, val)


def dec_note(b):
    return M.unpack("<BBHHH", b)


def enc_cmid(message_type, channel, slope, parameter):
    """[doc: "Controller MIDI mappings"]"""
    return M.pack("<BBBBHBB", message_type, channel, slope, 0, parameter, 0, 0xFF if message_type == 0 else 0xC8)


def dec_cmid(b):
    t, ch, sl, _r, p, _r2, _m = M.unpack("<BBBBHBB", b)
    return t, ch, sl, p


def frame(cid, payload):
    """IFF-style chunk: 4-byte ASCII id, unsigned int32 little-endian length, blob."""
    if isinstance(cid, str):
        cid = cid.encode("ascii")
    assert len(cid) == 4
    return cid + M.pack("<I", len(payload)) + payload


def parse_stream(data):
    """Independent chunk-stream parser: -> [(id: bytes, payload)]; raises ValueError when malformed."""
    out = []
    pos = 0
    n = len(data)
    while pos < n:
        if n - pos < 8:
            raise ValueError(f"truncated chunk header at {pos}")
        cid = data[pos:pos + 4]
        (ln,) = M.unpack("<I", data[pos + 4:pos + 8])
        if not isinstance(ln, int):
            raise ValueError("symbolic chunk length")
        if pos + 8 + ln > n:
            raise ValueError(f"chunk {cid!r} at {pos} overruns the stream")
        out.append((bytes(cid) if isinstance(cid, (bytes, bytearray)) else cid, data[pos + 8:pos + 8 + ln]))
        pos += 8 + ln
    return out


# [doc: "Drawn waveform chunk"]  32 frames, mono 8-bit signed, 44100 Hz; "SunVox assigns a default waveform"
DRAWN_WAVEFORM_DEFAULT_BYTES = bytes.fromhex(
    "009CA6005A89EC2D02EC6FE9029E3C20" "643200CE41623220A688645A3B150036")
DRAWN_WAVEFORM_DEFAULT = [b - 256 if b >= 128 else b for b in DRAWN_WAVEFORM_DEFAULT_BYTES]
