"""Independent oracle: the module metadata as specs/fileformat.yaml states it.

Nothing here looks at the generated classes; the YAML is read with yaml.safe_load on every run
from /repo's working tree.  Name mangling of enum keys uses the generator's own `enumname`
(which has its own contract in C13: idempotent and injective on every enum's keys).
"""
from __future__ import annotations

import os
from functools import lru_cache

import yaml

REPO = os.environ.get("RV_REPO", "/repo")


@lru_cache(None)
def load():
    with open(os.path.join(REPO, "specs", "fileformat.yaml")) as f:
        return yaml.safe_load(f)


def enumname(k):
    from genrv.tools.generate import enumname as en

    return en(str(k))


class CtlSpec:
    def __init__(self, name, d, mod):
        self.name = "in_" if name == "in" else name
        self.raw = d
        if "min" in d and "max" in d:
            self.kind = "compact" if d.get("compact") else ("no_offset" if d.get("no_offset") else "range")
            self.min, self.max = d["min"], d["max"]
            self.default = d["default"]
        elif "enum" in d and "default" in d:
            self.kind = "enum"
            self.enum = d["enum"]
            self.members = {enumname(k): v for k, v in mod["enums"][d["enum"]].items()}
            self.default = enumname(d["default"])
        elif "bool" in d:
            self.kind = "bool"
            self.default = d["default"]
        elif "depends_on" in d:
            self.kind = "dependent"
            self.depends_on = d["depends_on"]
            self.ranges = {enumname(k): (v["min"], v["max"]) for k, v in d["ranges"].items()}
            first = next(iter(d["ranges"].values()))
            self.fallback = (first["min"], first["max"])
            self.default = d["default"]
        else:
            raise ValueError(f"unclassifiable controller spec {name}: {d}")
        self.attached = d.get("attached", True)


class OptSpec:
    def __init__(self, name, d):
        self.name = name
        self.byte, self.bit, self.size = d["byte"], d["bit"], d["size"]
        self.number = d.get("number")
        self.default = d.get("default")
        self.inverted = bool(d.get("inverted", False))
        self.exclusive_of = list(d.get("exclusive_of") or [])
        self.min = d.get("min")
        self.max = d.get("max")
        self.enum = d.get("enum")


class ModSpec:
    def __init__(self, key, d):
        self.key = key
        self.mtype = d.get("type") or key
        self.group = d.get("group")
        self.default_flags = d.get("defaultFlags") or 0
        self.enums = {en: {enumname(k): v for k, v in e.items()} for en, e in (d.get("enums") or {}).items()}
        self.controllers = []
        for item in d.get("controllers") or []:
            for name, cd in item.items():
                self.controllers.append(CtlSpec(name, cd, d))
        self.options = []
        for item in d.get("options") or []:
            for name, od in item.items():
                self.options.append(OptSpec(name, od))
        self.options_chnm = d.get("options_chnm", 0) or 0
        self.chunks = d.get("chunks") or []


@lru_cache(None)
def module_specs():
    return {k: ModSpec(k, v) for k, v in load()["module_types"].items()}


def spec_by_mtype():
    return {m.mtype: m for m in module_specs().values()}
